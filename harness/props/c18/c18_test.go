// C18 — generated parsers and lexers are safe to run concurrently.
package c18

import (
	"encoding/json"
	"fmt"
	"strings"
	"testing"
	"time"

	"github.com/dcaiafa/lox/verifharness/lib/cfggen"
	"github.com/dcaiafa/lox/verifharness/lib/cfgm"
	"github.com/dcaiafa/lox/verifharness/lib/ev"
	"github.com/dcaiafa/lox/verifharness/lib/forge"
	"github.com/dcaiafa/lox/verifharness/lib/lexgen"
	"github.com/dcaiafa/lox/verifharness/lib/lexm"
	"github.com/dcaiafa/lox/verifharness/lib/loxb"
	"github.com/dcaiafa/lox/verifharness/lib/pgo"
	"pgregory.net/rapid"
)

type Pkg struct {
	G        *cfgm.G    `json:",omitempty"` // parser package (with the grammar's single-character lexer)
	S        *lexm.Spec `json:",omitempty"` // lexer-only package with modes and actions
	OnBounds bool
	HasErr   bool
}

type Task struct {
	Pkg   int
	Kind  string // parse | lex
	Toks  []int  `json:",omitempty"`
	Text  []byte `json:",omitempty"`
	Limit int    `json:",omitempty"`
}

type Workload struct {
	MaxProcs   int
	Yield      int // call runtime.Gosched at every Yield-th ReadToken (0 = never)
	ColdFirst  bool `json:",omitempty"` // the concurrent run comes first, the sequential reference after it
	Goroutines [][]Task
}

type Case struct {
	Pkgs      []*Pkg
	Workloads []*Workload
	Detail    string `json:",omitempty"`
}

func ri(t *rapid.T, lo, hi int, l string) int { return rapid.IntRange(lo, hi).Draw(t, l) }

const smGo = `package PKGNAME

func NewSM() interface {
	PushRune(rune) int
	Token() int
	Reset()
} {
	return new(_LexerStateMachine)
}
`

func driverMain(n int, lexOnly map[int]bool) string {
	var d strings.Builder
	d.WriteString(`package main

import (
	"encoding/json"
	"fmt"
	gotoken "go/token"
	"os"
	"runtime"
	"sync"
	"sync/atomic"

	"github.com/dcaiafa/loxlex/simplelexer"
`)
	for i := 0; i < n; i++ {
		fmt.Fprintf(&d, "\tc%04d \"verifscratch/c%04d\"\n", i, i)
	}
	d.WriteString(`)

type task struct {
	Pkg   int
	Kind  string
	Toks  []int
	Text  []byte
	Limit int
}

type workload struct {
	MaxProcs   int
	Yield      int
	ColdFirst  bool
	Goroutines [][]task
}

type sm interface {
	PushRune(rune) int
	Token() int
	Reset()
}

func lex(mk func() sm, in []byte) string {
	fset := gotoken.NewFileSet()
	file := fset.AddFile("in", -1, len(in))
	lx := simplelexer.New(simplelexer.Config{StateMachine: mk(), File: file, Input: in})
	out := ""
	for i := 0; i < len(in)+3; i++ {
		t, typ := lx.ReadToken()
		out += fmt.Sprintf("%d@%d+%d ", typ, file.Offset(t.Pos), len(t.Str))
		if typ == 0 {
			break
		}
	}
	return out
}

var counter int64
var yieldEvery int64

func run(t task) string {
	switch t.Pkg {
`)
	for i := 0; i < n; i++ {
		if lexOnly[i] {
			fmt.Fprintf(&d, `	case %d:
		return lex(func() sm { return c%04d.NewSM() }, t.Text)
`, i, i)
			continue
		}
		fmt.Fprintf(&d, `	case %d:
		if t.Kind == "lex" {
			return lex(func() sm { return c%04d.NewSM() }, t.Text)
		}
		r := c%04d.Run(t.Toks, t.Limit)
		return fmt.Sprint(r.OK, r.Panic, r.Errs, r.FirstErr, r.Expected, r.Tree, r.Log)
`, i, i, i)
	}
	d.WriteString(`	}
	return "?"
}

func main() {
	var w workload
	if err := json.NewDecoder(os.Stdin).Decode(&w); err != nil {
		panic(err)
	}
	runtime.GOMAXPROCS(w.MaxProcs)
	yieldEvery = int64(w.Yield)
	y := func() {
		if yieldEvery > 0 && atomic.AddInt64(&counter, 1)%yieldEvery == 0 {
			runtime.Gosched()
		}
	}
`)
	for i := 0; i < n; i++ {
		if !lexOnly[i] {
			fmt.Fprintf(&d, "\tc%04d.Yield = y\n", i)
		}
	}
	d.WriteString(`	_ = y
	// The sequential reference run happens in the same process: before the concurrent run, or -
	// ColdFirst - after it, so that the goroutines meet packages nothing has touched yet (state
	// that is set up lazily on first use would otherwise be warm before the first goroutine starts).
	want := make([][]string, len(w.Goroutines))
	sequential := func() {
		for g, ts := range w.Goroutines {
			for _, t := range ts {
				want[g] = append(want[g], run(t))
			}
		}
	}
	if !w.ColdFirst {
		sequential()
	}
	got := make([][]string, len(w.Goroutines))
	var wg sync.WaitGroup
	start := make(chan struct{})
	for g, ts := range w.Goroutines {
		g, ts := g, ts
		wg.Add(1)
		go func() {
			defer wg.Done()
			<-start
			for _, t := range ts {
				got[g] = append(got[g], run(t))
			}
		}()
	}
	close(start)
	wg.Wait()
	if w.ColdFirst {
		sequential()
	}
	var mism []string
	for g := range want {
		for i := range want[g] {
			if got[g][i] != want[g][i] {
				mism = append(mism, fmt.Sprintf("goroutine %d task %d: concurrent %q, sequential %q", g, i, got[g][i], want[g][i]))
			}
		}
	}
	json.NewEncoder(os.Stdout).Encode(map[string]any{"Mismatches": mism, "Tasks": len(w.Goroutines)})
}
`)
	return d.String()
}

var run18deep int

func genCase(rt *rapid.T, nWork int) *Case {
	c := &Case{}
	nP := ri(rt, 2, 4, "npkg")
	for len(c.Pkgs) < nP {
		i := len(c.Pkgs)
		o := cfggen.Opts{Sugar: true, Shapes: true, Guarded: true, Err: i%2 == 1}
		g := cfggen.GenG(rt, o)
		if i%2 == 1 && !cfggen.HasErr(g) {
			g.Rules[0].Prods = append(g.Rules[0].Prods, cfgm.Prod{Terms: []cfgm.Term{{Kind: cfgm.KErr}}})
		}
		lx := loxb.Front1(g.Lox())
		if lx.Panic != nil || !lx.OK || lx.T.HasConflicts {
			continue
		}
		c.Pkgs = append(c.Pkgs, &Pkg{G: g, OnBounds: i%3 != 2, HasErr: cfggen.HasErr(g)})
	}
	// one fixed nesting grammar with an @error production: deep parse stacks, errors and
	// recoveries (dropping tokens) far from the bottom of the stack
	nest := &cfgm.G{Toks: []string{"TA", "TB", "TC", "TD"}, Rules: []cfgm.Rule{
		{Name: "ra", Prods: []cfgm.Prod{{Terms: []cfgm.Term{{Kind: cfgm.KStar, Name: "rb"}}}}},
		{Name: "rb", Prods: []cfgm.Prod{
			{Terms: []cfgm.Term{{Kind: cfgm.KSym, Name: "TA", IsTok: true}}},
			{Terms: []cfgm.Term{{Kind: cfgm.KSym, Name: "TB", IsTok: true}, {Kind: cfgm.KSym, Name: "ra"}, {Kind: cfgm.KSym, Name: "TC", IsTok: true}}},
			{Terms: []cfgm.Term{{Kind: cfgm.KErr}, {Kind: cfgm.KSym, Name: "TC", IsTok: true}}},
		}},
	}}
	c.Pkgs = append(c.Pkgs, &Pkg{G: nest, OnBounds: true, HasErr: true})
	nestIdx := len(c.Pkgs) - 1
	// one wide grammar: a state with 36-44 actions and a goto row of the same width (long table
	// rows are searched differently from short ones)
	wide := &cfgm.G{Rules: []cfgm.Rule{{Name: "ra", Prods: []cfgm.Prod{{Terms: []cfgm.Term{{Kind: cfgm.KStar, Name: "rb"}}}}}, {Name: "rb"}}}
	for i, n := 0, ri(rt, 36, 44, "wide"); i < n; i++ {
		tn := fmt.Sprintf("T%c%c", 'A'+rune(i/26), 'A'+rune(i%26))
		rn := fmt.Sprintf("w%c%c", 'a'+rune(i/26), 'a'+rune(i%26))
		wide.Toks = append(wide.Toks, tn)
		wide.Rules[1].Prods = append(wide.Rules[1].Prods, cfgm.Prod{Terms: []cfgm.Term{{Kind: cfgm.KSym, Name: rn}}})
		wide.Rules = append(wide.Rules, cfgm.Rule{Name: rn, Prods: []cfgm.Prod{{Terms: []cfgm.Term{{Kind: cfgm.KSym, Name: tn, IsTok: true}}}}})
	}
	c.Pkgs = append(c.Pkgs, &Pkg{G: wide, OnBounds: false})
	wideIdx := len(c.Pkgs) - 1
	nP = len(c.Pkgs)
	// one or two lexer-only packages with a mode graph (push / pop, nesting)
	var lexTexts [][][]byte
	for i, n := 0, ri(rt, 1, 2, "nlexpkg"); i < n; i++ {
		sp := lexgen.GenSpec(rt, lexgen.Opts{MaxModes: 3, ModeActs: true, Frags: true, ShuffleAct: true, Depth: 2, MaxRules: 4})
		if lx := loxb.Front1(sp.Lox()); lx.Panic != nil || !lx.OK {
			continue
		}
		c.Pkgs = append(c.Pkgs, &Pkg{S: sp})
		lexTexts = append(lexTexts, lexgen.Texts(rt, sp, 30))
	}
	nAll := len(c.Pkgs)
	plains := make([]*cfgm.Plain, nAll)
	for i, p := range c.Pkgs {
		if p.G != nil {
			plains[i] = cfgm.Desugar(p.G)
		}
	}
	for k := 0; k < nWork; k++ {
		w := &Workload{MaxProcs: []int{2, 8, 16}[k%3], Yield: []int{0, 1, 3, 7}[ri(rt, 0, 3, "yield")], ColdFirst: ri(rt, 0, 2, "coldfirst") != 0}
		nG := ri(rt, 2, 32, "ngor")
		same := ri(rt, 0, nAll-1, "same") // package run by at least two goroutines
		switch ri(rt, 0, 3, "deepwork") {
		case 0, 1:
			same = nestIdx // several goroutines recover deep inside the nesting grammar at the same time
		case 2:
			same = wideIdx
		}
		for g := 0; g < nG; g++ {
			var ts []Task
			for j, nt := 0, ri(rt, 2, 10, "ntask"); j < nt; j++ {
				pi := ri(rt, 0, nAll-1, "pi")
				if g < 2 && j == 0 || (same == nestIdx || same == wideIdx) && ri(rt, 0, 2, "deepagain") == 0 {
					pi = same
				}
				if pi == nestIdx {
					// TB^k ... with stray TD tokens deep inside, then the closers (some missing)
					k := ri(rt, 60, 95, "depth")
					var w0 []int
					for q := 0; q < k; q++ {
						w0 = append(w0, 3) // TB
					}
					for q, nq := 0, ri(rt, 1, 4, "nerr"); q < nq; q++ {
						w0 = append(w0, 2, 5, 5, 2) // TA TD TD TA: an error with tokens to drop
					}
					for q := 0; q < k-ri(rt, 0, 2, "missing"); q++ {
						w0 = append(w0, 4) // TC
						if q%17 == 3 {
							w0 = append(w0, 5)
						}
					}
					if ri(rt, 0, 1, "deeplexerr") == 0 {
						at := ri(rt, 0, len(w0), "deeplexerrat")
						w0 = append(w0[:at], append([]int{1}, w0[at:]...)...)
					}
					ts = append(ts, Task{Pkg: pi, Kind: "parse", Toks: w0, Limit: 2000 + 200*len(w0)})
					run18deep++
					continue
				}
				if pi == wideIdx {
					var w0 []int
					for q, nq := 0, ri(rt, 20, 60, "widelen"); q < nq; q++ {
						w0 = append(w0, 2+ri(rt, 0, len(wide.Toks)-1, "widetok"))
					}
					ts = append(ts, Task{Pkg: pi, Kind: "parse", Toks: w0, Limit: 2000 + 200*len(w0)})
					continue
				}
				if c.Pkgs[pi].S != nil {
					tx := lexTexts[pi-nP]
					if len(tx) == 0 {
						continue
					}
					// lexer packages: the same handful of texts again and again, so that several
					// instances sit inside pushed modes at the same time
					ts = append(ts, Task{Pkg: pi, Kind: "lex", Text: tx[ri(rt, 0, min(len(tx)-1, 5), "tx")]})
					continue
				}
				p := plains[pi]
				if ri(rt, 0, 3, "lex") == 0 {
					// text over the grammar's single-character tokens, with blanks and a stray character
					var sb strings.Builder
					for q, nq := 0, ri(rt, 0, 12, "nq"); q < nq; q++ {
						switch ri(rt, 0, 5, "ch") {
						case 0:
							sb.WriteByte(' ')
						case 1:
							sb.WriteByte('?')
						default:
							sb.WriteRune(cfgm.TokChar(ri(rt, 0, len(c.Pkgs[pi].G.Toks)-1, "tk")))
						}
					}
					ts = append(ts, Task{Pkg: pi, Kind: "lex", Text: []byte(sb.String())})
					continue
				}
				w0 := cfggen.StripErr(cfggen.Sentence(rt, p, ri(rt, 2, 7, "b")))
				if ri(rt, 0, 1, "mut") == 0 {
					w0 = cfggen.Mutate(rt, w0, 1, p.NT)
				}
				if len(w0) > 40 {
					w0 = w0[:40]
				}
				if ri(rt, 0, 1, "lexerr") == 0 {
					// ERROR tokens as a lexer reports them for characters no rule accepts, in different
					// places for different goroutines (the parsers are then in different states)
					for q, nq := 0, ri(rt, 1, 3, "nlexerr"); q < nq; q++ {
						at := ri(rt, 0, len(w0), "lexerrat")
						w0 = append(w0[:at], append([]int{1}, w0[at:]...)...)
					}
				}
				ts = append(ts, Task{Pkg: pi, Kind: "parse", Toks: w0, Limit: 2000 + 200*len(w0)})
			}
			w.Goroutines = append(w.Goroutines, ts)
		}
		c.Workloads = append(c.Workloads, w)
	}
	return c
}

func evaluate(run *ev.Run, c *Case) string {
	var files []map[string]string
	lexOnly := map[int]bool{}
	for i, p := range c.Pkgs {
		if p.S != nil {
			lexOnly[i] = true
			files = append(files, map[string]string{"g.lox": p.S.Lox(), "user.go": forge.LexStub, "sm.go": smGo})
			continue
		}
		files = append(files, map[string]string{"g.lox": p.G.Lox(), "user.go": pgo.UserGo(p.G, pgo.Opts{OnBounds: p.OnBounds}), "sm.go": smGo})
	}
	b, err := forge.GenerateOnly(files, true, false)
	if err != nil {
		run.HarnessError("%v", err)
	}
	defer b.Close()
	for i, p := range b.Pkgs {
		if !p.Gen.OK {
			return fmt.Sprintf("package %d: generator failed: %s%v", i, p.Gen.Diag, p.Gen.Panic)
		}
	}
	bin, err := b.Build(driverMain(len(c.Pkgs), lexOnly), true)
	if err != nil {
		if be, ok := err.(*forge.BuildError); ok && strings.Contains(be.Output, ".gen.go") && !strings.Contains(be.Output, "drv/main.go") {
			return "generated code does not compile: " + be.Output
		}
		run.HarnessError("race build failed: %v", err)
	}
	for wi, w := range c.Workloads {
		stdin, _ := json.Marshal(w)
		rr := forge.Run(bin, stdin, 5*time.Minute, "GORACE=halt_on_error=1 exitcode=66")
		run.Eval(1)
		ngor, recov, samePkg := len(w.Goroutines), false, false
		cnt := map[int]int{}
		for _, ts := range w.Goroutines {
			seen := map[int]bool{}
			for _, t := range ts {
				if !seen[t.Pkg] {
					seen[t.Pkg] = true
					cnt[t.Pkg]++
				}
				if c.Pkgs[t.Pkg].HasErr && t.Kind == "parse" {
					recov = true
				}
				if c.Pkgs[t.Pkg].S != nil {
					run.Class("tasks:lexer-with-modes")
				}
			}
		}
		for _, n := range cnt {
			if n >= 2 {
				samePkg = true
			}
		}
		if samePkg && len(cnt) >= 2 && recov {
			run.Nontrivial(string(stdin))
		}
		run.ClassN("goroutines", ngor)
		run.Class(fmt.Sprintf("GOMAXPROCS=%d", w.MaxProcs))
		if strings.Contains(string(rr.Stderr), "DATA RACE") {
			return fmt.Sprintf("workload %d (GOMAXPROCS=%d, %d goroutines): data race reported:\n%s", wi, w.MaxProcs, ngor, head(string(rr.Stderr), 3000))
		}
		if rr.TimedOut {
			run.Inconclusive("workload did not finish within the guard")
			continue
		}
		if rr.Err != nil {
			return fmt.Sprintf("workload %d: driver failed: %v\n%s", wi, rr.Err, head(string(rr.Stderr), 2000))
		}
		var out struct {
			Mismatches []string
		}
		if err := json.Unmarshal(rr.Stdout, &out); err != nil {
			run.HarnessError("driver output: %v", err)
		}
		if len(out.Mismatches) > 0 {
			return fmt.Sprintf("workload %d (GOMAXPROCS=%d, %d goroutines): concurrent results differ from the sequential run: %s", wi, w.MaxProcs, ngor, strings.Join(out.Mismatches[:min(3, len(out.Mismatches))], "; "))
		}
	}
	return ""
}

func head(s string, n int) string {
	if len(s) > n {
		return s[:n]
	}
	return s
}

func TestC18(t *testing.T) {
	run := ev.Start("C18")
	defer run.Finish(t)
	run.Rule = "sets of 2-4 generated parser packages, one nesting grammar with an @error production driven with inputs nested 60-95 deep that contain errors whose recovery drops tokens, plus 1-2 lexer-only packages with up to 3 nested modes (push/pop) (different grammars; every second one with @error recovery, two of three with _onBounds; each with its generated lexer state machine) linked into ONE program built with -race; workloads of 2-32 goroutines released by a barrier, each running 2-10 tasks (parse of a sentence or mutant through the generated parser, or lexing a text through the real simplelexer + generated state machine), at least two goroutines starting on the same package, GOMAXPROCS in {2,8,16}, runtime.Gosched injected at every 1st/3rd/7th ReadToken; in two of three workloads the concurrent run comes FIRST in its process and the sequential reference run after it (packages are cold when the goroutines start, so lazily initialised shared state is met concurrently); " +
		"oracle: no report from the race detector (GORACE=halt_on_error) and every task's result (ok, errors, first blamed token, result tree, event log / token stream) equals the sequential run of the same workload in the same process; " +
		"non-trivial = workload where >=2 goroutines use the same package, >=2 packages are used and a recovery-capable parser runs; distinct by workload"
	run.Assumptions = []string{"the schedule is not owned by the harness: assurance rests on the race detector's happens-before analysis plus result comparison on the schedules that happened"}
	report := func(c *Case, d string) {
		c.Detail = d
		run.Violation(d, c)
	}
	if run.Replay != "" {
		var c Case
		if err := ev.LoadReplay(run.Replay, &c); err != nil {
			run.HarnessError("replay: %v", err)
		}
		if d := evaluate(run, &c); d != "" {
			report(&c, d)
		}
		return
	}
	for _, f := range run.CanonFiles() {
		var c Case
		if err := ev.LoadReplay(f, &c); err != nil {
			run.HarnessError("canon %s: %v", f, err)
		}
		run.Class("replay-tier")
		if d := evaluate(run, &c); d != "" {
			report(&c, d)
		}
	}
	if run.Violations() > 0 {
		return
	}
	nSets := run.N(2, 12)
	for s := 0; s < nSets; s++ {
		var c *Case
		if f := run.Check(fmt.Sprintf("set-%d", s), 1, 1, func(rt *rapid.T, fail ev.FailFunc) { c = genCase(rt, run.N(6, 12)) }); f != nil || c == nil {
			run.HarnessError("generation failed")
		}
		run.Class("package-sets")
		if s == 0 {
			run.Sample("workload", map[string]any{"packages": len(c.Pkgs), "first-grammar": c.Pkgs[0].G.Lox(), "lexer-package": c.Pkgs[len(c.Pkgs)-1].S, "goroutines": len(c.Workloads[0].Goroutines), "first-tasks": c.Workloads[0].Goroutines[0]})
		}
		if d := evaluate(run, c); d != "" {
			report(c, d)
			return
		}
	}
}
