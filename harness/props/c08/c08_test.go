// C08 — non-greedy repetitions stop at the first complete match.
package c08

import (
	"fmt"
	"strings"
	"testing"

	"github.com/dcaiafa/lox/verifharness/lib/ev"
	"github.com/dcaiafa/lox/verifharness/lib/lbatch"
	"github.com/dcaiafa/lox/verifharness/lib/lexm"
	"github.com/dcaiafa/lox/verifharness/lib/loxb"
	"github.com/dcaiafa/lox/verifharness/lib/shrink"
	"pgregory.net/rapid"
)

// NG describes one rule of the property's shape: prefix body{*?,+?} terminator.
type NG struct {
	Mode   int    `json:",omitempty"` // index of the rule's mode (second part only; 0 = default mode)
	Rule   int    // index in its mode
	Prefix string // literal prefix (1..3 code points); "" when PrefixSet is used
	PSet   []lexm.Rng
	Body   []*lexm.Expr // alternatives, each a class or '.'
	Plus   bool
	Term   string
}

type Case struct {
	S      *lexm.Spec
	NGs    []NG
	Inputs [][]byte
	Mixed  bool   `json:",omitempty"` // second part (mixed_test.go): greedy rules sharing a prefix, mode actions
	Lox    string `json:",omitempty"`
	Detail string `json:",omitempty"`
}

func ri(t *rapid.T, lo, hi int, l string) int { return rapid.IntRange(lo, hi).Draw(t, l) }

// characters the non-greedy rules start with; greedy rules never start with them
var ngStarts = []rune{'/', '"', '<', '{', '#'}
var bodyPool = []rune{'a', 'b', '*', '/', '"', '>', '}', '-', ' ', '\n', 'x', 0xE9, 0x800, 0x10000}
var termPool = []string{"*/", "\"", ">", "}}", "-->", "aab", "aa", "**/", "b", "\"\"\"", "xax", "\n", "é", "/*/"}

func genBodyAlt(t *rapid.T) *lexm.Expr {
	switch ri(t, 0, 5, "bk") {
	case 0:
		return &lexm.Expr{Kind: "any"}
	case 1:
		return &lexm.Expr{Kind: "class", Neg: true, Set: []lexm.Rng{{Lo: '\n', Hi: '\n'}}}
	case 2:
		return &lexm.Expr{Kind: "class", Set: []lexm.Rng{{Lo: 0x20, Hi: 0x7E}}}
	default:
		e := &lexm.Expr{Kind: "class", Neg: ri(t, 0, 3, "neg") == 0}
		for i, n := 0, ri(t, 1, 4, "n"); i < n; i++ {
			c := bodyPool[ri(t, 0, len(bodyPool)-1, "c")]
			e.Set = append(e.Set, lexm.Rng{Lo: c, Hi: c})
		}
		if lexm.ClassSet(e).Empty() {
			e.Neg = false
		}
		return e
	}
}

func genCase(rt *rapid.T, nInputs int) *Case {
	s := &lexm.Spec{Modes: []*lexm.Mode{{Name: ""}}}
	m := s.Modes[0]
	c := &Case{S: s}
	nNG := ri(rt, 1, 2, "nNG")
	// greedy rules first or last (declaration order must not matter: first characters are disjoint)
	var greedy []*lexm.Rule
	for i, n := 0, ri(rt, 0, 3, "ngreedy"); i < n; i++ {
		var e *lexm.Expr
		switch ri(rt, 0, 3, "gk") {
		case 0:
			e = &lexm.Expr{Kind: "plus", Kids: []*lexm.Expr{{Kind: "class", Set: []lexm.Rng{{Lo: 'a', Hi: 'z'}}}}}
		case 1:
			e = &lexm.Expr{Kind: "plus", Kids: []*lexm.Expr{{Kind: "class", Set: []lexm.Rng{{Lo: ' ', Hi: ' '}, {Lo: '\n', Hi: '\n'}}}}}
		case 2:
			e = &lexm.Expr{Kind: "seq", Kids: []*lexm.Expr{{Kind: "lit", Lit: "a"}, {Kind: "star", Kids: []*lexm.Expr{{Kind: "class", Set: []lexm.Rng{{Lo: 'a', Hi: 'b'}}}}}}}
		default:
			e = &lexm.Expr{Kind: "lit", Lit: []string{"*", "-", "**", "b", ">"}[ri(rt, 0, 4, "gl")]}
		}
		r := &lexm.Rule{E: e}
		if ri(rt, 0, 3, "gfrag") == 0 {
			r.Actions = []lexm.Action{{Kind: "discard"}}
		} else {
			r.Name = fmt.Sprintf("G%c", 'A'+rune(i))
		}
		greedy = append(greedy, r)
	}
	first := rapid.Bool().Draw(rt, "ngfirst")
	if !first {
		m.Rules = append(m.Rules, greedy...)
	}
	starts := rapid.Permutation(ngStarts).Draw(rt, "starts")
	var emitNG []*lexm.Rule // fragments that will @emit a token of the spec (filled in once all rules exist)
	for i := 0; i < nNG; i++ {
		ng := NG{Rule: len(m.Rules), Plus: rapid.Bool().Draw(rt, "plus"), Term: termPool[ri(rt, 0, len(termPool)-1, "term")]}
		var prefix *lexm.Expr
		if ri(rt, 0, 3, "pclass") == 0 {
			ng.PSet = []lexm.Rng{{Lo: starts[i], Hi: starts[i]}}
			prefix = &lexm.Expr{Kind: "class", Set: ng.PSet}
		} else {
			ng.Prefix = string(starts[i]) + []string{"", "*", "!-", "\""}[ri(rt, 0, 3, "prest")]
			prefix = &lexm.Expr{Kind: "lit", Lit: ng.Prefix}
		}
		nb := 1
		if ri(rt, 0, 2, "balt") == 0 {
			nb = 2
		}
		for k := 0; k < nb; k++ {
			ng.Body = append(ng.Body, genBodyAlt(rt))
		}
		var body *lexm.Expr
		if len(ng.Body) == 1 {
			body = ng.Body[0]
		} else {
			body = &lexm.Expr{Kind: "alt", Kids: ng.Body}
		}
		kind := "starng"
		if ng.Plus {
			kind = "plusng"
		}
		rep := &lexm.Expr{Kind: kind, Kids: []*lexm.Expr{body}}
		term := &lexm.Expr{Kind: "lit", Lit: ng.Term}
		e := &lexm.Expr{Kind: "seq", Kids: []*lexm.Expr{prefix, rep, term}}
		// the same rule written with the repetition nested: in parentheses, together with the
		// prefix in parentheses, or with the opening part (prefix and repetition) in a macro
		switch ri(rt, 0, 7, "nest") {
		case 0:
			e = &lexm.Expr{Kind: "seq", Kids: []*lexm.Expr{prefix, {Kind: "group", Kids: []*lexm.Expr{rep}}, term}}
		case 1:
			e = &lexm.Expr{Kind: "seq", Kids: []*lexm.Expr{{Kind: "group", Kids: []*lexm.Expr{{Kind: "seq", Kids: []*lexm.Expr{prefix, rep}}}}, term}}
		case 2:
			mn := fmt.Sprintf("OPEN%c", 'A'+rune(i))
			s.Macros = append(s.Macros, &lexm.Macro{Name: mn, E: &lexm.Expr{Kind: "seq", Kids: []*lexm.Expr{prefix, rep}}})
			e = &lexm.Expr{Kind: "seq", Kids: []*lexm.Expr{{Kind: "ref", Ref: mn}, term}}
		case 3:
			mn := fmt.Sprintf("BODY%c", 'A'+rune(i))
			s.Macros = append(s.Macros, &lexm.Macro{Name: mn, E: rep})
			e = &lexm.Expr{Kind: "seq", Kids: []*lexm.Expr{prefix, {Kind: "ref", Ref: mn}, term}}
		}
		r := &lexm.Rule{E: e}
		switch ri(rt, 0, 5, "ngfrag") {
		case 0, 1:
			r.Actions = []lexm.Action{{Kind: "discard"}}
		case 2:
			// accumulating fragment: its text becomes part of the next token
		case 3:
			emitNG = append(emitNG, r)
		default:
			r.Name = fmt.Sprintf("N%c", 'A'+rune(i))
		}
		m.Rules = append(m.Rules, r)
		c.NGs = append(c.NGs, ng)
	}
	if first {
		m.Rules = append(m.Rules, greedy...)
	}
	// make sure at least one token exists
	hasTok := false
	for _, r := range m.Rules {
		hasTok = hasTok || r.Name != ""
	}
	if !hasTok {
		r := m.Rules[c.NGs[0].Rule]
		r.Name, r.Actions = "NA", nil
	}
	var tokNames []string
	for _, r := range m.Rules {
		if r.Name != "" {
			tokNames = append(tokNames, r.Name)
		}
	}
	for _, r := range emitNG {
		if r.Name == "" {
			r.Actions = []lexm.Action{{Kind: "emit", Arg: tokNames[ri(rt, 0, len(tokNames)-1, "emitarg")]}}
		}
	}
	// inputs
	seen := map[string]bool{}
	for k := 0; k < nInputs; k++ {
		var sb strings.Builder
		for seg, nseg := 0, ri(rt, 1, 3, "nseg"); seg < nseg; seg++ {
			if ri(rt, 0, 3, "gseg") == 0 {
				sb.WriteString([]string{"abc", " ", "ab", "*", "**", "-", "b", ">", "\n", "zz a"}[ri(rt, 0, 9, "gs")])
				continue
			}
			ng := c.NGs[ri(rt, 0, len(c.NGs)-1, "which")]
			if ng.Prefix != "" {
				sb.WriteString(ng.Prefix)
			} else {
				sb.WriteRune(ng.PSet[0].Lo)
			}
			// body text with terminator look-alikes
			term := []rune(ng.Term)
			for b, nb := 0, ri(rt, 0, 6, "nbody"); b < nb; b++ {
				switch ri(rt, 0, 4, "bt") {
				case 0: // proper prefix of the terminator
					sb.WriteString(string(term[:ri(rt, 1, len(term), "tp")]))
				case 1:
					sb.WriteRune(term[0])
				default:
					sb.WriteRune(bodyPool[ri(rt, 0, len(bodyPool)-1, "bc")])
				}
			}
			if ri(rt, 0, 5, "unterminated") != 0 {
				sb.WriteString(ng.Term)
				if ri(rt, 0, 2, "again") == 0 {
					sb.WriteString(ng.Term) // terminator occurs twice
				}
			}
		}
		in := []byte(sb.String())
		if !seen[string(in)] {
			seen[string(in)] = true
			c.Inputs = append(c.Inputs, in)
		}
	}
	return c
}

// ngMatch is the statement itself: the token ends at the first occurrence of
// the terminator after the prefix (after >=1 repetition for +?) such that every
// code point in between is in the body set.
func ngMatch(ng NG, in []byte, pos int) (end int, ok bool, nontrivial bool) {
	p := pos
	if ng.Prefix != "" {
		for _, want := range ng.Prefix {
			c, n := lexm.DecodeRune(in, p)
			if c != want {
				return 0, false, false
			}
			p += n
		}
	} else {
		c, n := lexm.DecodeRune(in, p)
		if c < 0 || !lexm.NormSet(ng.PSet).Has(c) {
			return 0, false, false
		}
		p += n
	}
	var sets []*lexm.CharSet
	for _, b := range ng.Body {
		sets = append(sets, lexm.ClassSet(b))
	}
	inBody := func(c rune) bool {
		for _, s := range sets {
			if s.Has(c) {
				return true
			}
		}
		return false
	}
	term := []byte(ng.Term)
	reps := 0
	// non-triviality: the terminator occurs again later, or a proper prefix of it occurs inside the body
	for {
		if (!ng.Plus || reps >= 1) && len(in)-p >= len(term) && string(in[p:p+len(term)]) == string(term) {
			end = p + len(term)
			rest := string(in[end:])
			body := string(in[pos:p])
			nontrivial = strings.Contains(rest, ng.Term) || (len(ng.Term) > 1 && strings.ContainsRune(body[min(len(body), max(1, len(ng.Prefix))):], []rune(ng.Term)[0]))
			return end, true, nontrivial
		}
		c, n := lexm.DecodeRune(in, p)
		if c < 0 || !inBody(c) {
			return 0, false, false
		}
		p += n
		reps++
	}
}

func reference(c *Case, in []byte) ([]lexm.Tok, bool) {
	ref := lexm.NewRef(c.S)
	skip := map[int]bool{}
	for _, ng := range c.NGs {
		skip[ng.Rule] = true
	}
	var out []lexm.Tok
	nontrivial := false
	pos := 0
	start := 0 // where the text accumulated by action-less fragments begins
	for {
		if pos >= len(in) {
			if start != pos {
				// input ends inside accumulated text: that text is reported as an error
				return append(out, lexm.Tok{Kind: "ERROR", Lo: start, Hi: start}), nontrivial
			}
			return append(out, lexm.Tok{Kind: "EOF", Lo: pos, Hi: pos}), nontrivial
		}
		// which non-greedy rule owns this first character?
		owner := -1
		c0, _ := lexm.DecodeRune(in, pos)
		for i, ng := range c.NGs {
			if ng.Prefix != "" && []rune(ng.Prefix)[0] == c0 || ng.Prefix == "" && lexm.NormSet(ng.PSet).Has(c0) {
				owner = i
			}
		}
		var win, end int
		if owner >= 0 {
			e, ok, nt := ngMatch(c.NGs[owner], in, pos)
			if !ok {
				return append(out, lexm.Tok{Kind: "ERROR", Lo: start, Hi: start}), nontrivial
			}
			nontrivial = nontrivial || nt
			win, end = c.NGs[owner].Rule, e
		} else {
			win, end = ref.Step(0, in, pos, skip)
			if win < 0 {
				return append(out, lexm.Tok{Kind: "ERROR", Lo: start, Hi: start}), nontrivial
			}
		}
		r := c.S.Modes[0].Rules[win]
		pos = end
		switch {
		case r.Name != "":
			out = append(out, lexm.Tok{Kind: r.Name, Lo: start, Hi: end})
			start = end
		case len(r.Actions) == 1 && r.Actions[0].Kind == "emit":
			out = append(out, lexm.Tok{Kind: r.Actions[0].Arg, Lo: start, Hi: end})
			start = end
		case len(r.Actions) == 1 && r.Actions[0].Kind == "discard":
			start = end
		default:
			// accumulate: the text joins the next token (or the next discarded stretch)
		}
	}
}

func showToks(ts []lexm.Tok) string {
	parts := make([]string, len(ts))
	for i, t := range ts {
		parts[i] = fmt.Sprintf("%s[%d:%d]", t.Kind, t.Lo, t.Hi)
	}
	return strings.Join(parts, " ")
}

type verdict struct {
	has    bool
	bad    []byte
	detail string
}

func eval(run *ev.Run, cases []*Case, count bool) ([]verdict, error) {
	if len(cases) > 0 && cases[0].Mixed {
		return evalMixed(run, cases, count)
	}
	lc := make([]*lbatch.Case, len(cases))
	for i, c := range cases {
		c.Lox = c.S.Lox()
		lc[i] = &lbatch.Case{Files: map[string]string{"g.lox": c.Lox}, Inputs: c.Inputs}
	}
	outs, err := lbatch.Run(lc, true, false)
	vs := make([]verdict, len(cases))
	if ge, ok := err.(*lbatch.GenCodeError); ok {
		vs[ge.CaseIndex] = verdict{has: true, detail: "lox succeeded but the generated code does not compile: " + ge.Output}
		return vs, nil
	}
	if err != nil {
		return nil, err
	}
	for i, c := range cases {
		o := outs[i]
		if !o.GenOK {
			vs[i] = verdict{has: true, detail: "lox rejects a well-formed specification: " + o.GenDiag + o.GenPanic}
			continue
		}
		for k, in := range c.Inputs {
			want, nt := reference(c, in)
			r := o.Results[k]
			if count {
				run.Eval(1)
				if nt {
					run.Nontrivial(c.Lox + "|" + string(in))
				}
			}
			var got []lexm.Tok
			for _, t := range r.Toks {
				switch t.T {
				case 0:
					got = append(got, lexm.Tok{Kind: "EOF", Lo: t.Lo, Hi: t.Lo})
				case 1:
					got = append(got, lexm.Tok{Kind: "ERROR", Lo: t.Lo, Hi: t.Lo})
				default:
					got = append(got, lexm.Tok{Kind: o.Names[t.T], Lo: t.Lo, Hi: t.Lo + t.Len})
				}
				if t.T == 0 || t.T == 1 {
					break
				}
			}
			if r.Panic != "" || showToks(got) != showToks(want) {
				vs[i] = verdict{has: true, bad: in, detail: fmt.Sprintf("input %q (panic=%q):\n  lox       %s\n  statement %s", in, r.Panic, showToks(got), showToks(want))}
				break
			}
		}
	}
	return vs, nil
}

func TestC08(t *testing.T) {
	run := ev.Start("C08")
	defer run.Finish(t)
	run.Rule = "one mode with 1-2 rules of the shape prefix body{*?|+?} terminator (prefix: literal of 1-3 code points or a class; body: a class, '.', or an alternation of two; terminator from a pool favouring multi-character and self-overlapping literals such as aab, aa, **/, \"\"\", /*/) as token or @discard fragment, plus 0-3 greedy rules whose first characters are disjoint from the prefixes (declared before or after); inputs: prefix + body text containing proper prefixes and first characters of the terminator + terminator (sometimes twice, sometimes missing) + greedy text; " +
		"oracle = the statement: the token ends at the first occurrence of the terminator after the prefix (after >=1 repetition for +?) with every code point in between in the body set; greedy rules by the derivative reference lexer; " +
		"non-trivial = input in which the terminator occurs again after the match or its first character occurs inside the body; distinct by (spec text, input). The repetition may be nested (in parentheses, with the prefix in parentheses, or with prefix / repetition in a macro). Non-greedy rules are tokens, @discard fragments, @emit fragments or accumulating fragments (their text joins the next token). Greedy rules sharing a first character with a non-greedy rule are outside the generated domain (undocumented interaction)."
	run.Assumptions = []string{"greedy rules never start with a character a non-greedy rule can start with"}
	report := func(c *Case, detail string) {
		c.Detail = detail
		run.Violation(detail, c)
	}
	one := func(c *Case) {
		vs, err := eval(run, []*Case{c}, true)
		if err != nil {
			run.HarnessError("%v", err)
		}
		if vs[0].has {
			report(c, vs[0].detail)
		}
	}
	if run.Replay != "" {
		var c Case
		if err := ev.LoadReplay(run.Replay, &c); err != nil {
			run.HarnessError("replay: %v", err)
		}
		one(&c)
		return
	}
	for _, f := range run.CanonFiles() {
		var c Case
		if err := ev.LoadReplay(f, &c); err != nil {
			run.HarnessError("canon %s: %v", f, err)
		}
		run.Class("replay-tier")
		one(&c)
	}
	if run.Violations() > 0 {
		return
	}
	n := run.N(320, 5000)
	const batch = 80
	for done := 0; done < n; done += batch {
		var cases []*Case
		want := min(batch, n-done)
		fc := run.Check(fmt.Sprintf("collect-%d", done), want, 1, func(rt *rapid.T, fail ev.FailFunc) {
			cases = append(cases, genCase(rt, 40))
		})
		if fc != nil {
			run.HarnessError("collect failed: %s\n%s", fc.Msg, fc.Log)
		}
		vs, err := eval(run, cases, true)
		if err != nil {
			run.HarnessError("%v", err)
		}
		for i, c := range cases {
			run.Class("specs")
			for _, ng := range c.NGs {
				if ng.Plus {
					run.Class("rules:+?")
				} else {
					run.Class("rules:*?")
				}
			}
			if i < 2 {
				run.Sample("case", map[string]any{"lox": c.Lox, "inputs": len(c.Inputs), "first": string(c.Inputs[0])})
			}
			if !vs[i].has {
				continue
			}
			fc := &Case{S: c.S, NGs: c.NGs, Inputs: c.Inputs, Lox: c.Lox, Mixed: c.Mixed}
			detail := vs[i].detail
			if vs[i].bad != nil {
				fc.Inputs = [][]byte{vs[i].bad}
				fc = shrinkCase(run, fc)
				if v2, err := eval(run, []*Case{fc}, false); err == nil && v2[0].has {
					detail = v2[0].detail
				}
			}
			report(fc, detail)
			return
		}
	}
	// second part: greedy rules sharing a prefix with the non-greedy rule, mode actions on non-greedy rules
	n2 := run.N(240, 4000)
	for done := 0; done < n2; done += batch {
		var cases []*Case
		want := min(batch, n2-done)
		fc := run.Check(fmt.Sprintf("mixed-collect-%d", done), want, 1, func(rt *rapid.T, fail ev.FailFunc) {
			cases = append(cases, genMixed(rt, 40))
		})
		if fc != nil {
			run.HarnessError("collect failed: %s\n%s", fc.Msg, fc.Log)
		}
		vs, err := eval(run, cases, true)
		if err != nil {
			run.HarnessError("%v", err)
		}
		for i, c := range cases {
			run.Class("mixed:specs")
			if len(c.S.Modes) > 1 {
				run.Class("mixed:non-greedy-rule-with-mode-action")
			}
			if i < 1 {
				run.Sample("mixed-case", map[string]any{"lox": c.Lox, "inputs": len(c.Inputs), "first": string(c.Inputs[0])})
			}
			if !vs[i].has {
				continue
			}
			fc := &Case{S: c.S, NGs: c.NGs, Inputs: c.Inputs, Lox: c.Lox, Mixed: true}
			detail := vs[i].detail
			if vs[i].bad != nil {
				fc.Inputs = [][]byte{vs[i].bad}
				fc = shrinkCase(run, fc)
				if v2, err := eval(run, []*Case{fc}, false); err == nil && v2[0].has {
					detail = v2[0].detail
				}
			}
			report(fc, detail)
			return
		}
	}
	run.RequireClass("mixed:non-greedy-rule-with-mode-action", 20)
	run.RequireClass("mixed:greedy-match-inside-a-repetition", 100)
	run.RequireClass("rules:+?", 50)
	run.RequireClass("rules:*?", 50)
	_ = loxb.Front1
}

// shrinkCase: shorter input, fewer greedy rules.
func shrinkCase(run *ev.Run, c *Case) *Case {
	cands := func(c *Case) []*Case {
		var out []*Case
		in := c.Inputs[0]
		for size := len(in) / 2; size >= 1; size /= 2 {
			for lo := 0; lo+size <= len(in); lo += size {
				n := append(append([]byte(nil), in[:lo]...), in[lo+size:]...)
				out = append(out, &Case{S: c.S, NGs: c.NGs, Inputs: [][]byte{n}, Mixed: c.Mixed})
			}
		}
		if c.Mixed {
			return out
		}
		// drop a greedy rule (indices of NG rules shift)
		for ri := range c.S.Modes[0].Rules {
			isNG := false
			for _, ng := range c.NGs {
				isNG = isNG || ng.Rule == ri
			}
			if isNG && len(c.NGs) == 1 {
				continue
			}
			ns := &lexm.Spec{Modes: []*lexm.Mode{{Name: ""}}}
			var nngs []NG
			for j, r := range c.S.Modes[0].Rules {
				if j == ri {
					continue
				}
				for _, ng := range c.NGs {
					if ng.Rule == j {
						ng.Rule = len(ns.Modes[0].Rules)
						nngs = append(nngs, ng)
					}
				}
				ns.Modes[0].Rules = append(ns.Modes[0].Rules, r)
			}
			hasTok := false
			for _, r := range ns.Modes[0].Rules {
				hasTok = hasTok || r.Name != ""
			}
			if hasTok && len(nngs) > 0 {
				out = append(out, &Case{S: ns, NGs: nngs, Inputs: c.Inputs})
			}
		}
		return out
	}
	failing := func(cs []*Case) []bool {
		res := make([]bool, len(cs))
		vs, err := eval(run, cs, false)
		if err != nil {
			return res
		}
		for i, v := range vs {
			res[i] = v.has && v.bad != nil
		}
		return res
	}
	return shrink.Greedy(c, cands, failing, 16)
}
