package c08

// Second part of C08: a non-greedy rule together with greedy rules that SHARE a
// prefix with it, and non-greedy rules that carry mode actions.
//
// The statement gives every rule a language: a greedy rule its regular language,
// a rule of the shape  prefix body{*?|+?} terminator  the strings in which the
// terminator occurs for the first time at the very end ("the token ends at the
// first occurrence of the terminator"). The token stream is then what C02 says
// for those languages: consume while the text is a prefix of some match, act
// according to the earliest rule that matches exactly that run ("greedy rules keep
// their longest-match behaviour").
//
// On the pinned tree this does not hold when a greedy rule accepts a text that is,
// at the same time, inside the repetition of a non-greedy rule: the generated
// lexer marks the whole automaton state "non-greedy accepting" and stops there,
// whichever rule accepts (listed finding C08-ng-cross-rule). A failing case is
// attributed to that finding only if the lexer's stream is exactly what a model of
// that one behaviour predicts (asIs below); anything else is a violation.

import (
	"fmt"
	"strings"

	"github.com/dcaiafa/lox/verifharness/lib/ev"
	"github.com/dcaiafa/lox/verifharness/lib/lbatch"
	"github.com/dcaiafa/lox/verifharness/lib/lexm"
	"pgregory.net/rapid"
)

const knownCross = "C08-ng-cross-rule"

func hasPrefixR(s, p []rune) bool {
	if len(p) > len(s) {
		return false
	}
	for i := range p {
		if s[i] != p[i] {
			return false
		}
	}
	return true
}

func (ng NG) inBody(c rune) bool {
	for _, b := range ng.Body {
		if lexm.ClassSet(b).Has(c) {
			return true
		}
	}
	return false
}

// prefixLen: number of code points of u that the prefix consumes; ok=false when u
// contradicts the prefix; done=false when u ends inside the prefix.
func (ng NG) prefixOf(u []rune) (n int, ok, done bool) {
	if ng.Prefix != "" {
		pre := []rune(ng.Prefix)
		for i, c := range pre {
			if i >= len(u) {
				return i, true, false
			}
			if u[i] != c {
				return 0, false, false
			}
		}
		return len(pre), true, true
	}
	if len(u) == 0 {
		return 0, true, false
	}
	if !lexm.NormSet(ng.PSet).Has(u[0]) {
		return 0, false, false
	}
	return 1, true, true
}

// scanNG: is u a prefix of some string of the rule's language (viable), is it one (match)?
func scanNG(ng NG, u []rune) (viable, match bool) {
	p, ok, done := ng.prefixOf(u)
	if !ok {
		return false, false
	}
	if !done {
		return true, false
	}
	term := []rune(ng.Term)
	reps := 0
	for {
		rest := u[p:]
		if !ng.Plus || reps >= 1 {
			if hasPrefixR(rest, term) {
				return len(rest) == len(term), len(rest) == len(term)
			}
			if hasPrefixR(term, rest) {
				return true, false
			}
		}
		if len(rest) == 0 {
			return true, false
		}
		if !ng.inBody(rest[0]) {
			return false, false
		}
		p++
		reps++
	}
}

// insideRepetition: u is the prefix followed by repetitions only (enough of them for +?): the
// automaton state reached on u contains the exit of the non-greedy loop.
func insideRepetition(ng NG, u []rune) bool {
	p, ok, done := ng.prefixOf(u)
	if !ok || !done {
		return false
	}
	for _, c := range u[p:] {
		if !ng.inBody(c) {
			return false
		}
	}
	return !ng.Plus || len(u)-p >= 1
}

// lexMixed produces the token stream up to the first ERROR / EOF. asIs=false: the statement.
// asIs=true: the statement's automaton read the way the pinned generator reads it (non-greedy
// rules as ordinary repetitions, but the run stops as soon as SOME rule accepts while the text
// is inside the repetition of a non-greedy rule).
func lexMixed(c *Case, ref *lexm.RefLexer, in []byte, asIs bool) (out []lexm.Tok, crossed bool) {
	mode := 0
	var stack []int
	pos, start := 0, 0
	for steps := 0; steps < 4*len(in)+8; steps++ {
		rules := c.S.Modes[mode].Rules
		ds := ref.ModeRules(mode)
		ngOf := map[int]*NG{}
		for i := range c.NGs {
			if c.NGs[i].Mode == mode {
				ngOf[c.NGs[i].Rule] = &c.NGs[i]
			}
		}
		var u []rune
		p := pos
		matches := func() int {
			if p == pos {
				return -1
			}
			for i := range rules {
				if ng := ngOf[i]; ng != nil && !asIs {
					if _, m := scanNG(*ng, u); m {
						return i
					}
					continue
				}
				if lexm.NullableRE(ds[i]) {
					return i
				}
			}
			return -1
		}
		for {
			inside := false
			for _, ng := range ngOf {
				inside = inside || insideRepetition(*ng, u)
			}
			accepted := matches() >= 0
			if asIs && accepted && inside {
				break
			}
			ch, n := lexm.DecodeRune(in, p)
			if ch == -1 {
				break
			}
			alive := false
			nds := make([]lexm.RE, len(ds))
			for i := range rules {
				nds[i] = ref.Deriv(ds[i], ch)
				if ng := ngOf[i]; ng != nil && !asIs {
					v, _ := scanNG(*ng, append(append([]rune(nil), u...), ch))
					alive = alive || v
					continue
				}
				alive = alive || !lexm.Dead(nds[i])
			}
			if !alive {
				break
			}
			if accepted && inside {
				crossed = true // the run goes on past a match that lies inside a repetition
			}
			ds = nds
			u = append(u, ch)
			p += n
		}
		win := matches()
		if win < 0 {
			if p == pos && pos >= len(in) && start == pos {
				return append(out, lexm.Tok{Kind: "EOF", Lo: pos, Hi: pos}), crossed
			}
			return append(out, lexm.Tok{Kind: "ERROR", Lo: start, Hi: start}), crossed
		}
		r := rules[win]
		final := "accum"
		if r.Name != "" {
			final = "emit"
		}
		name := r.Name
		for _, a := range r.Actions {
			switch a.Kind {
			case "push":
				stack = append(stack, mode)
				mode = ref.ModeIndex(a.Arg)
			case "pop":
				if len(stack) == 0 {
					return out, crossed // unspecified: stop before this token
				}
				mode, stack = stack[len(stack)-1], stack[:len(stack)-1]
			case "emit":
				final, name = "emit", a.Arg
			case "discard":
				final = "discard"
			}
		}
		pos = p
		switch final {
		case "emit":
			out = append(out, lexm.Tok{Kind: name, Lo: start, Hi: pos})
			start = pos
		case "discard":
			start = pos
		}
	}
	return out, crossed
}

func genMixed(rt *rapid.T, nInputs int) *Case {
	s := &lexm.Spec{Modes: []*lexm.Mode{{Name: ""}}}
	c := &Case{S: s, Mixed: true}
	m := s.Modes[0]
	lit := func(x string) *lexm.Expr { return &lexm.Expr{Kind: "lit", Lit: x} }
	cls := func(rs ...rune) *lexm.Expr {
		e := &lexm.Expr{Kind: "class"}
		for i := 0; i+1 < len(rs); i += 2 {
			e.Set = append(e.Set, lexm.Rng{Lo: rs[i], Hi: rs[i+1]})
		}
		return e
	}
	type shape struct {
		prefix string
		body   *lexm.Expr
		term   string
	}
	shapes := []shape{
		{"\"", &lexm.Expr{Kind: "any"}, "\""},
		{"/*", &lexm.Expr{Kind: "any"}, "*/"},
		{"x", cls('a', 'z'), "y"},
		{"<", cls('a', 'z', '>', '>'), ">"},
		{"/*", cls('a', 'z', '*', '*', '/', '/'), "*/"},
		{"q", cls('a', 'c', 'q', 'q'), "aab"},
		{"{", &lexm.Expr{Kind: "class", Neg: true, Set: []lexm.Rng{{Lo: '\n', Hi: '\n'}}}, "}}"},
	}
	sh := shapes[ri(rt, 0, len(shapes)-1, "shape")]
	plus := rapid.Bool().Draw(rt, "plus")
	withMode := ri(rt, 0, 2, "mode") == 0
	kind := "starng"
	if plus {
		kind = "plusng"
	}
	ngRule := &lexm.Rule{Name: "NG", E: &lexm.Expr{Kind: "seq", Kids: []*lexm.Expr{lit(sh.prefix), {Kind: kind, Kids: []*lexm.Expr{sh.body}}, lit(sh.term)}}}
	if withMode {
		ngRule.Actions = []lexm.Action{{Kind: "push", Arg: "Mb"}}
	}
	first := []rune(sh.prefix)[0]
	bodyChar := 'a'
	for _, cand := range []rune{'a', 'b', 'z', '*', ' '} {
		if (NG{Body: []*lexm.Expr{sh.body}}).inBody(cand) {
			bodyChar = cand
			break
		}
	}
	// greedy rules sharing a prefix with NG
	var shared []*lexm.Rule
	pool := []func() *lexm.Rule{
		func() *lexm.Rule { // exactly NG's shortest match
			x := sh.prefix + sh.term
			if plus {
				x = sh.prefix + string(bodyChar) + sh.term
			}
			return &lexm.Rule{Name: "EX", E: lit(x)}
		},
		func() *lexm.Rule { // an identifier-like rule over the prefix's and the body's characters
			return &lexm.Rule{Name: "ID", E: &lexm.Expr{Kind: "plus", Kids: []*lexm.Expr{cls('a', 'z', first, first)}}}
		},
		func() *lexm.Rule { // a literal that ends inside NG's repetition, with an optional tail
			e := lit(sh.prefix + string(bodyChar))
			if rapid.Bool().Draw(rt, "tail") {
				e = &lexm.Expr{Kind: "seq", Kids: []*lexm.Expr{e, {Kind: "star", Kids: []*lexm.Expr{cls('a', 'z')}}}}
			}
			return &lexm.Rule{Name: "LT", E: e}
		},
		func() *lexm.Rule { return &lexm.Rule{Name: "P1", E: lit(string(first))} },
		func() *lexm.Rule { // the prefix alone, then letters
			return &lexm.Rule{Name: "PW", E: &lexm.Expr{Kind: "seq", Kids: []*lexm.Expr{lit(sh.prefix), {Kind: "star", Kids: []*lexm.Expr{cls('a', 'z')}}}}}
		},
	}
	for _, k := range rapid.Permutation([]int{0, 1, 2, 3, 4}).Draw(rt, "sharedperm")[:ri(rt, 0, 2, "nshared")] {
		shared = append(shared, pool[k]())
	}
	ws := &lexm.Rule{E: &lexm.Expr{Kind: "plus", Kids: []*lexm.Expr{cls(' ', ' ', '\n', '\n')}}, Actions: []lexm.Action{{Kind: "discard"}}}
	word := &lexm.Rule{Name: "WD", E: &lexm.Expr{Kind: "plus", Kids: []*lexm.Expr{cls('0', '9')}}}
	at := ri(rt, 0, len(shared), "ngat")
	m.Rules = append(m.Rules, shared[:at]...)
	ngIdx := len(m.Rules)
	m.Rules = append(m.Rules, ngRule)
	m.Rules = append(m.Rules, shared[at:]...)
	m.Rules = append(m.Rules, ws, word)
	c.NGs = []NG{{Rule: ngIdx, Prefix: sh.prefix, Body: []*lexm.Expr{sh.body}, Plus: plus, Term: sh.term}}
	if withMode {
		mb := &lexm.Mode{Name: "Mb"}
		back := &lexm.Rule{Name: "BK", E: lit("~"), Actions: []lexm.Action{{Kind: "pop"}}}
		inner := &lexm.Rule{Name: "IW", E: &lexm.Expr{Kind: "plus", Kids: []*lexm.Expr{cls('a', 'z')}}}
		mb.Rules = []*lexm.Rule{back, inner, {E: lit(" "), Actions: []lexm.Action{{Kind: "discard"}}}}
		if rapid.Bool().Draw(rt, "ng-pop") {
			// a non-greedy rule that pops: [ ... ]
			r2 := &lexm.Rule{Name: "NP", E: &lexm.Expr{Kind: "seq", Kids: []*lexm.Expr{lit("["), {Kind: "starng", Kids: []*lexm.Expr{{Kind: "any"}}}, lit("]")}}, Actions: []lexm.Action{{Kind: "pop"}}}
			mb.Rules = append(mb.Rules, r2)
			c.NGs = append(c.NGs, NG{Mode: 1, Rule: len(mb.Rules) - 1, Prefix: "[", Body: []*lexm.Expr{{Kind: "any"}}, Term: "]"})
		}
		s.Modes = append(s.Modes, mb)
	}
	// inputs
	pieces := []string{sh.prefix, sh.term, string(bodyChar), sh.prefix + sh.term, sh.prefix + string(bodyChar) + sh.term,
		sh.prefix + string(bodyChar) + string(bodyChar), "ab", "y", " ", "12", string(first), "zz"}
	if withMode {
		pieces = append(pieces, "~", "~", "[a]", "[", "]", "w ")
	}
	seen := map[string]bool{}
	for k := 0; k < nInputs; k++ {
		var sb strings.Builder
		for i, n := 0, ri(rt, 1, 7, "npieces"); i < n; i++ {
			sb.WriteString(pieces[ri(rt, 0, len(pieces)-1, "piece")])
		}
		if !seen[sb.String()] {
			seen[sb.String()] = true
			c.Inputs = append(c.Inputs, []byte(sb.String()))
		}
	}
	return c
}

// evalMixed evaluates cases of the second part. known counts cases attributed to the listed finding.
func evalMixed(run *ev.Run, cases []*Case, count bool) ([]verdict, error) {
	lc := make([]*lbatch.Case, len(cases))
	for i, c := range cases {
		c.Lox = c.S.Lox()
		lc[i] = &lbatch.Case{Files: map[string]string{"g.lox": c.Lox}, Inputs: c.Inputs}
	}
	outs, err := lbatch.Run(lc, true, false)
	vs := make([]verdict, len(cases))
	if ge, ok := err.(*lbatch.GenCodeError); ok {
		vs[ge.CaseIndex] = verdict{has: true, detail: "lox succeeded but the generated code does not compile: " + ge.Output}
		return vs, nil
	}
	if err != nil {
		return nil, err
	}
	for i, c := range cases {
		o := outs[i]
		if !o.GenOK {
			vs[i] = verdict{has: true, detail: "lox rejects a well-formed specification: " + o.GenDiag + o.GenPanic}
			continue
		}
		ref := lexm.NewRef(c.S)
		for k, in := range c.Inputs {
			want, crossed := lexMixed(c, ref, in, false)
			r := o.Results[k]
			var got []lexm.Tok
			for _, t := range r.Toks {
				switch t.T {
				case 0:
					got = append(got, lexm.Tok{Kind: "EOF", Lo: t.Lo, Hi: t.Lo})
				case 1:
					got = append(got, lexm.Tok{Kind: "ERROR", Lo: t.Lo, Hi: t.Lo})
				default:
					got = append(got, lexm.Tok{Kind: o.Names[t.T], Lo: t.Lo, Hi: t.Lo + t.Len})
				}
				if t.T == 0 || t.T == 1 {
					break
				}
			}
			// a stream cut short by the reference (pop on an empty stack) is compared up to there
			if n := len(want); n > 0 && want[n-1].Kind != "EOF" && want[n-1].Kind != "ERROR" && len(got) > n {
				got = got[:n]
			}
			if count {
				run.Eval(1)
				run.Class("mixed:inputs")
				if crossed {
					run.Class("mixed:greedy-match-inside-a-repetition")
					run.Nontrivial("mixed|" + c.Lox + "|" + string(in))
				}
			}
			if r.Panic == "" && showToks(got) == showToks(want) {
				continue
			}
			model, _ := lexMixed(c, ref, in, true)
			if r.Panic == "" && showToks(got) == showToks(model) && run.Known(knownCross) {
				if count {
					run.KnownHit(knownCross, "a greedy rule's match inside a non-greedy repetition ends the token")
				}
				continue
			}
			vs[i] = verdict{has: true, bad: in, detail: fmt.Sprintf("input %q (panic=%q):\n  lox       %s\n  statement %s\n  (model of the listed cross-rule behaviour: %s)", in, r.Panic, showToks(got), showToks(want), showToks(model))}
			break
		}
	}
	return vs, nil
}
