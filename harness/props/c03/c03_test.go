// C03 — actions run as the unique bottom-up derivation; sugar yields documented values.
package c03

import (
	"testing"

	"github.com/dcaiafa/lox/verifharness/lib/ev"
	"github.com/dcaiafa/lox/verifharness/lib/treecheck"
)

func TestC03(t *testing.T) {
	run := ev.Start("C03")
	defer run.Finish(t)
	run.Rule = "random conflict-free, sugar-heavy grammars (80% with ? * + *! @list) with a generated action file (one typed method per parameter signature, every action returns a fresh numbered node); inputs are sentences (random derivations); " +
		"oracle = derivation tree of the independent reference LALR(1) parser, re-validated node by node against the grammar, projected on user rules with sugar slots evaluated as documented (x? -> value or zero, x*/x+/@list -> elements in order, x*! -> elements minus Discard()); node ids encode the call order (post-order); " +
		"non-trivial = sentence whose tree has >=3 user nodes, >=1 non-empty sugar slot and a production of arity >=3; distinct by (grammar text, sentence)"
	run.Assumptions = []string{"reference parser tree is self-certified (valid derivation of an unambiguous grammar is the derivation)", "Discard() of harness types is a deterministic function (token id parity / node span parity)"}
	treecheck.RunCheck(run, "C03", treecheck.Mode{}, 400, 5000, false)
	if run.Replay == "" && run.Violations() == 0 {
		run.RequireClass("sentence-with-non-empty-sugar-slot", 200)
	}
}
