// C07 — lexer modes form a stack; every action on a rule takes effect.
package c07

import (
	"testing"

	"github.com/dcaiafa/lox/verifharness/lib/ev"
	"github.com/dcaiafa/lox/verifharness/lib/lexcheck"
	"github.com/dcaiafa/lox/verifharness/lib/lexgen"
	"github.com/dcaiafa/lox/verifharness/lib/lexm"
)

func TestC07(t *testing.T) {
	run := ev.Start("C07")
	defer run.Finish(t)
	run.Rule = "random lexer specifications with 1-3 named modes and a generated mode graph: nesting, a mode pushing itself, re-entering the default mode with @push_mode(), rules with several mode actions (pop+push, push+push), and the emit/discard of a fragment written at any position among the mode actions; inputs follow a walk of the mode graph (so that deep modes are reached and left) with noise; " +
		"oracle = reference lexer with an explicit mode stack: mode actions applied in written order, then the rule's emit / discard / accumulate wherever it was written; compared up to the first lexical error; a @pop_mode on an empty stack is unspecified (comparison stops before that token); " +
		"non-trivial = input that reaches mode depth >=2 and returns to depth 0, or matches a rule whose emit/discard is not written last; distinct by (spec text, input)"
	run.Assumptions = []string{"reference lexer in lib/lexm", "pop on an empty mode stack is outside the statement"}
	classify := func(run *ev.Run, info lexm.Info, ref []lexm.Tok) bool {
		if info.MaxDepth >= 2 {
			run.Class("depth>=2")
		}
		if info.Returned {
			run.Class("depth>=2-and-returned")
		}
		if info.EmitNotLast {
			run.Class("emit/discard-not-written-last")
		}
		if info.AccumThenOut {
			run.Class("accumulate-then-emit/discard")
		}
		if info.PopEmpty {
			run.Class("pop-on-empty-stack(unspecified)")
		}
		return info.Returned || info.EmitNotLast
	}
	o := lexgen.Opts{MaxModes: 3, ModeActs: true, Frags: true, Macros: false, ShuffleAct: true, Depth: 2, MaxRules: 4, RepeatPop: true}
	lexcheck.AfterErrors = true // the statement about push / pop does not end at the first lexical error
	lexcheck.RunCheck(run, o, 320, 5000, 40, classify, nil)
	if run.Replay == "" && run.Violations() == 0 {
		run.RequireClass("depth>=2-and-returned", 20)
		run.RequireClass("emit/discard-not-written-last", 150)
	}
}
