// C15 — character classes and literals denote exact code-point sets.
package c15

import (
	"fmt"
	"sort"
	"strings"
	"testing"

	"github.com/dcaiafa/lox/internal/ast"
	"github.com/dcaiafa/lox/internal/lexergen/rang3"
	"github.com/dcaiafa/lox/verifharness/lib/ev"
	"github.com/dcaiafa/lox/verifharness/lib/forge"
	"github.com/dcaiafa/lox/verifharness/lib/lexgen"
	"github.com/dcaiafa/lox/verifharness/lib/lexm"
	"github.com/dcaiafa/lox/verifharness/lib/loxb"
	"github.com/dcaiafa/lox/verifharness/lib/tabdec"
	"pgregory.net/rapid"
)

type R = rang3.Range

func toSet(rs []R) *lexm.CharSet {
	var xs []lexm.Rng
	for _, r := range rs {
		xs = append(xs, lexm.Rng{Lo: r.B, Hi: r.E})
	}
	return lexm.NormSet(xs)
}

func sameSet(a, b *lexm.CharSet) bool {
	if len(a.R) != len(b.R) {
		return false
	}
	for i := range a.R {
		if a.R[i] != b.R[i] {
			return false
		}
	}
	return true
}

func union(a, b *lexm.CharSet) *lexm.CharSet {
	return lexm.NormSet(append(append([]lexm.Rng(nil), a.R...), b.R...))
}

func showRs(rs []R) string {
	parts := make([]string, len(rs))
	for i, r := range rs {
		parts[i] = fmt.Sprintf("%d-%d", r.B, r.E)
	}
	return "[" + strings.Join(parts, " ") + "]"
}

func sortedDisjoint(rs []R, nonTouching bool) string {
	for i, r := range rs {
		if r.B > r.E {
			return fmt.Sprintf("range %d-%d has lower bound above upper bound", r.B, r.E)
		}
		if i > 0 {
			if r.B <= rs[i-1].E {
				return fmt.Sprintf("ranges %d-%d and %d-%d are not sorted and disjoint", rs[i-1].B, rs[i-1].E, r.B, r.E)
			}
			if nonTouching && r.B == rs[i-1].E+1 {
				return fmt.Sprintf("ranges %d-%d and %d-%d touch", rs[i-1].B, rs[i-1].E, r.B, r.E)
			}
		}
	}
	return ""
}

// ---- level 1: the range algebra --------------------------------------------

func guard(what string, f func() string) (d string) {
	defer func() {
		if r := recover(); r != nil {
			d = fmt.Sprintf("%s panicked: %v", what, r)
		}
	}()
	return f()
}

func checkFlatten(in []R) string {
	return guard("Flatten"+showRs(in), func() string { return checkFlatten1(in) })
}

func checkSubtract(a, b []R) string {
	return guard("Subtract("+showRs(a)+", "+showRs(b)+")", func() string { return checkSubtract1(a, b) })
}

func checkFlatten1(in []R) string {
	arg := append([]R(nil), in...)
	type ev struct{ oa, ob, n R }
	var evs []ev
	out := rang3.Flatten(arg, func(oa, ob, n R) { evs = append(evs, ev{oa, ob, n}) })
	if d := sortedDisjoint(out, true); d != "" {
		return "Flatten" + showRs(in) + " = " + showRs(out) + ": " + d
	}
	if !sameSet(toSet(out), toSet(in)) {
		return "Flatten" + showRs(in) + " = " + showRs(out) + " changes the set"
	}
	// replay the callbacks on a multiset: each merges two present ranges into their exact union
	cur := map[R]int{}
	for _, r := range in {
		cur[r]++
	}
	for _, e := range evs {
		if cur[e.oa] == 0 || cur[e.ob] == 0 || (e.oa == e.ob && cur[e.oa] < 2) {
			return fmt.Sprintf("Flatten%s: callback (%v,%v->%v) names a range that is not present", showRs(in), e.oa, e.ob, e.n)
		}
		if !sameSet(union(toSet([]R{e.oa}), toSet([]R{e.ob})), toSet([]R{e.n})) {
			return fmt.Sprintf("Flatten%s: callback merges %v and %v into %v, which is not their union", showRs(in), e.oa, e.ob, e.n)
		}
		cur[e.oa]--
		cur[e.ob]--
		cur[e.n]++
	}
	var left []R
	for r, n := range cur {
		for i := 0; i < n; i++ {
			left = append(left, r)
		}
	}
	sort.Slice(left, func(i, j int) bool { return rang3.Compare(left[i], left[j]) < 0 })
	if showRs(left) != showRs(out) {
		return fmt.Sprintf("Flatten%s: callbacks leave %s but the result is %s", showRs(in), showRs(left), showRs(out))
	}
	return ""
}

func checkSubtract1(a, b []R) string {
	out := rang3.Subtract(append([]R(nil), a...), append([]R(nil), b...))
	want := lexm.Minus(toSet(a), toSet(b))
	if !sameSet(toSet(out), want) {
		return fmt.Sprintf("Subtract(%s, %s) = %s, set difference is %v", showRs(a), showRs(b), showRs(out), want.R)
	}
	if len(b) > 0 && len(a) > 0 {
		if d := sortedDisjoint(out, false); d != "" {
			return fmt.Sprintf("Subtract(%s, %s) = %s: %s", showRs(a), showRs(b), showRs(out), d)
		}
	}
	return ""
}

func checkNormalize(in []R) string {
	// pieces[i] = current pieces of original range i
	pieces := make([]map[R]bool, len(in))
	for i, r := range in {
		pieces[i] = map[R]bool{r: true}
	}
	bad := ""
	calls := 0
	func() {
		defer func() {
			if r := recover(); r != nil {
				bad = fmt.Sprintf("Normalize%s panicked: %v", showRs(in), r)
			}
		}()
		rang3.Normalize(append([]R(nil), in...), func(o, a, b, c R) {
			calls++
			if calls > 100000 {
				panic("more than 100000 callbacks")
			}
			found := false
			for i := range pieces {
				if pieces[i][o] {
					found = true
					delete(pieces[i], o)
					pieces[i][a], pieces[i][b], pieces[i][c] = true, true, true
				}
			}
			if !found && bad == "" {
				bad = fmt.Sprintf("Normalize%s: callback splits %v, which is not a current piece", showRs(in), o)
			}
		})
	}()
	if bad != "" {
		return bad
	}
	var all []R
	for i, ps := range pieces {
		var rs []R
		for r := range ps {
			rs = append(rs, r)
			all = append(all, r)
		}
		sort.Slice(rs, func(a, b int) bool { return rang3.Compare(rs[a], rs[b]) < 0 })
		if d := sortedDisjoint(rs, false); d != "" {
			return fmt.Sprintf("Normalize%s: pieces of %v are %s: %s", showRs(in), in[i], showRs(rs), d)
		}
		if !sameSet(toSet(rs), toSet([]R{in[i]})) {
			return fmt.Sprintf("Normalize%s: pieces %s of %v are not an exact cover", showRs(in), showRs(rs), in[i])
		}
	}
	for i := range all {
		for j := i + 1; j < len(all); j++ {
			if all[i] != all[j] && all[i].Intersects(all[j]) {
				return fmt.Sprintf("Normalize%s: pieces %v and %v overlap without being equal", showRs(in), all[i], all[j])
			}
		}
	}
	return ""
}

func smallRanges(u int) []R {
	var rs []R
	for lo := 0; lo < u; lo++ {
		for hi := lo; hi < u; hi++ {
			rs = append(rs, R{B: rune(lo), E: rune(hi)})
		}
	}
	return rs
}

func level1Exhaustive(run *ev.Run) string {
	rs8 := smallRanges(8)
	var lists [][]R
	lists = append(lists, nil)
	for _, a := range rs8 {
		lists = append(lists, []R{a})
		for _, b := range rs8 {
			lists = append(lists, []R{a, b})
			for _, c := range rs8 {
				lists = append(lists, []R{a, b, c})
			}
		}
	}
	for i, l := range lists {
		run.Eval(1)
		if i%9000 == 40 {
			run.Sample("range-list(exhaustive)", showRs(l))
		}
		if len(l) >= 2 {
			run.Nontrivial("F" + showRs(l))
		}
		if d := checkFlatten(l); d != "" {
			return d
		}
		distinct := true
		for i := range l {
			for j := i + 1; j < len(l); j++ {
				distinct = distinct && l[i] != l[j]
			}
		}
		if distinct {
			run.Eval(1)
			if d := checkNormalize(l); d != "" {
				return d
			}
		}
	}
	run.ClassN("exhaustive:lists<=3-over-0..7(Flatten,Normalize)", len(lists))
	rs6 := smallRanges(6)
	var l2 [][]R
	l2 = append(l2, nil)
	for _, a := range rs6 {
		l2 = append(l2, []R{a})
		for _, b := range rs6 {
			l2 = append(l2, []R{a, b})
		}
	}
	n := 0
	for _, a := range l2 {
		for _, b := range l2 {
			n++
			run.Eval(1)
			if d := checkSubtract(a, b); d != "" {
				return d
			}
		}
	}
	run.ClassN("exhaustive:pairs-of-lists<=2-over-0..5(Subtract)", n)
	// the same shapes shifted to the top of the code space
	for _, l := range lists[:2000] {
		s := make([]R, len(l))
		for i, r := range l {
			s[i] = R{B: rang3.MaxRune - 7 + r.B, E: rang3.MaxRune - 7 + r.E}
		}
		run.Eval(1)
		if d := checkFlatten(s); d != "" {
			return d
		}
		if d := checkSubtract([]R{{B: 0, E: rang3.MaxRune}}, s); d != "" {
			return d
		}
	}
	return ""
}

func genR(rt *rapid.T, ends *[]rune) R {
	pick := func() rune {
		if len(*ends) > 0 && rapid.IntRange(0, 2).Draw(rt, "nb") == 0 {
			e := (*ends)[rapid.IntRange(0, len(*ends)-1).Draw(rt, "nbi")] + rune(rapid.IntRange(-1, 1).Draw(rt, "d"))
			if e >= 0 && e <= rang3.MaxRune {
				return e
			}
		}
		return lexgen.Pool[rapid.IntRange(0, len(lexgen.Pool)-1).Draw(rt, "p")]
	}
	a, b := pick(), pick()
	if a > b {
		a, b = b, a
	}
	if rapid.IntRange(0, 3).Draw(rt, "single") == 0 {
		b = a
	}
	*ends = append(*ends, a, b)
	return R{B: a, E: b}
}

// ---- level 2: class expressions through the real front end -------------------

func classRangesFromFrontEnd(text string) (map[string][]R, string) {
	u, diag, pan := loxb.ParseUnit(text)
	if pan != nil {
		return nil, fmt.Sprintf("front end panicked: %v", pan)
	}
	if u == nil {
		return nil, "front end rejected: " + diag
	}
	out := map[string][]R{}
	for _, st := range u.Statements {
		tr, ok := st.(*ast.TokenRule)
		if !ok {
			continue
		}
		if len(tr.Expr.Factors) != 1 || len(tr.Expr.Factors[0].Terms) != 1 {
			continue
		}
		cc, ok := tr.Expr.Factors[0].Terms[0].Term.(*ast.LexerTermCharClass)
		if !ok {
			continue
		}
		out[tr.Name] = cc.Expr.GetRanges()
	}
	return out, ""
}

type ClassCase struct {
	Classes []*lexm.Expr
	Lox     string `json:",omitempty"`
	Detail  string `json:",omitempty"`
}

func (c *ClassCase) text() string {
	var sb strings.Builder
	sb.WriteString("@lexer\n")
	for i, e := range c.Classes {
		fmt.Fprintf(&sb, "T%c = %s\n", 'A'+rune(i), e.Text(true))
	}
	return sb.String()
}

func evalClasses(run *ev.Run, c *ClassCase) string {
	return guard("class evaluation", func() string { return evalClasses1(run, c) })
}

func evalClasses1(run *ev.Run, c *ClassCase) string {
	c.Lox = c.text()
	got, d := classRangesFromFrontEnd(c.Lox)
	if d != "" {
		return d
	}
	for i, e := range c.Classes {
		name := fmt.Sprintf("T%c", 'A'+rune(i))
		rs, ok := got[name]
		if !ok {
			return "class " + name + " not found in the parsed unit"
		}
		want := lexm.ClassSet(e)
		run.Eval(1)
		if e.Neg || e.HasS || len(e.Set) >= 2 {
			run.Nontrivial(e.Text(true))
		}
		if e.Neg {
			run.Class("class:negated")
		}
		if e.HasS {
			run.Class("class:difference")
		}
		if dd := sortedDisjoint(rs, false); dd != "" {
			return fmt.Sprintf("%s = %s: ranges %s: %s", name, e.Text(true), showRs(rs), dd)
		}
		if !sameSet(toSet(rs), want) {
			return fmt.Sprintf("%s = %s denotes %v, lox computes %s", name, e.Text(true), want.R, showRs(rs))
		}
	}
	return ""
}

// ---- level 3: through automaton construction and the emitted table ----------

type TableCase struct {
	Rules  []*lexm.Expr // single classes and literals, one token each, one mode
	// Macro[i]: rule i is written "T = M" with "@macro M = <expression>" (a macro's expression is
	// evaluated once per expansion; every evaluation must denote the same set); Late: the macros are
	// declared after the rules that use them
	Macro []bool `json:",omitempty"`
	Late  bool   `json:",omitempty"`
	Lox    string       `json:",omitempty"`
	Detail string       `json:",omitempty"`
}

func (c *TableCase) spec() *lexm.Spec {
	s := &lexm.Spec{Modes: []*lexm.Mode{{Name: ""}}}
	for i, e := range c.Rules {
		if i < len(c.Macro) && c.Macro[i] {
			mn := fmt.Sprintf("M%c", 'A'+rune(i))
			s.Macros = append(s.Macros, &lexm.Macro{Name: mn, E: e})
			e = &lexm.Expr{Kind: "ref", Ref: mn}
		}
		s.Modes[0].Rules = append(s.Modes[0].Rules, &lexm.Rule{Name: fmt.Sprintf("T%c", 'A'+rune(i)), E: e})
	}
	if c.Late && len(s.Macros) > 0 {
		s.Style = 8 | (len(c.Rules)-1)<<4
	}
	return s
}

func runTable(m *tabdec.LexMode, x []rune) (tok int, outcome string) {
	st := 0
	for _, c := range x {
		n, ok := m.States[st].Next(c)
		if !ok {
			return -1, "reject"
		}
		st = n
	}
	for _, a := range m.States[st].Acts {
		switch a.Type {
		case 3:
			return a.Param, "accept"
		case 4:
			return -1, "discard"
		case 5:
			return -1, "accum"
		}
	}
	return -1, "reject"
}

func probes(c *TableCase) [][]rune {
	seen := map[string]bool{}
	var out [][]rune
	add := func(x []rune) {
		for _, r := range x {
			if r < 0 || r > lexm.MaxRune || (r >= 0xD800 && r <= 0xDFFF) {
				return // outside the code space, or a surrogate (not representable in an input)
			}
		}
		if !seen[string(x)] || strings.ContainsRune(string(x), 0xFFFD) {
			seen[string(x)] = true
			out = append(out, x)
		}
	}
	var ends []rune
	shared := false
	for _, e := range c.Rules {
		switch e.Kind {
		case "class", "any":
			for _, r := range append(append([]lexm.Rng(nil), e.Set...), e.Sub...) {
				ends = append(ends, r.Lo, r.Hi)
			}
		case "lit":
			ends = append(ends, []rune(e.Lit)...)
		case "seq":
			shared = true
		}
	}
	if shared {
		// shared-class cases: rules are [prefix literal] class [suffix literal]; probe every
		// prefix x (class end point -1/0/+1) x suffix combination
		var pre, suf [][]rune
		var mid []rune
		pre, suf = append(pre, nil), append(suf, nil)
		for _, e := range c.Rules {
			kids := e.Kids
			if e.Kind != "seq" {
				kids = []*lexm.Expr{e}
			}
			for k, kid := range kids {
				switch {
				case kid.Kind == "lit" && k == 0:
					pre = append(pre, []rune(kid.Lit))
				case kid.Kind == "lit":
					suf = append(suf, []rune(kid.Lit))
				default:
					for _, r := range kid.Set {
						for d := rune(-1); d <= 1; d++ {
							mid = append(mid, r.Lo+d, r.Hi+d)
						}
					}
				}
			}
		}
		for _, p := range pre {
			for _, m := range mid {
				for _, s := range suf {
					x := append(append(append([]rune(nil), p...), m), s...)
					add(x)
				}
			}
		}
		return out
	}
	ends = append(ends, 0, lexm.MaxRune)
	for _, e := range ends {
		for d := rune(-1); d <= 1; d++ {
			add([]rune{e + d})
		}
	}
	for _, e := range c.Rules {
		if e.Kind != "lit" {
			continue
		}
		rs := []rune(e.Lit)
		add(rs)
		add(rs[:len(rs)-1])
		add(append(append([]rune(nil), rs...), rs[len(rs)-1]))
		for i := range rs {
			for _, d := range []rune{-1, 1} {
				m := append([]rune(nil), rs...)
				m[i] += d
				add(m)
			}
			for _, e2 := range ends[:min(len(ends), 6)] {
				m := append([]rune(nil), rs...)
				m[i] = e2
				add(m)
			}
		}
	}
	return out
}

func evalTables(run *ev.Run, cases []*TableCase) ([]string, error) {
	var files []map[string]string
	for _, c := range cases {
		c.Lox = c.spec().Lox()
		files = append(files, map[string]string{"g.lox": c.Lox, "user.go": forge.LexStub})
	}
	b, err := forge.GenerateOnly(files, true, false)
	if err != nil {
		return nil, err
	}
	defer b.Close()
	ds := make([]string, len(cases))
	for i, c := range cases {
		p := b.Pkgs[i]
		if !p.Gen.OK {
			ds[i] = fmt.Sprintf("lox rejects a well-formed specification: %s%v", p.Gen.Diag, p.Gen.Panic)
			continue
		}
		arrs, err := tabdec.IntArrays(p.Out["lexer.gen.go"])
		if err != nil {
			ds[i] = "lexer.gen.go does not parse: " + err.Error()
			continue
		}
		m, err := tabdec.DecodeLexMode(arrs["_lexerMode0"])
		if err != nil {
			ds[i] = "lexer table malformed: " + err.Error()
			continue
		}
		_, consts, _, err := tabdec.Consts(p.Out["base.gen.go"])
		if err != nil {
			ds[i] = "base.gen.go does not parse: " + err.Error()
			continue
		}
		byVal := map[int]string{}
		for n, v := range consts {
			byVal[int(v)] = n
		}
		spec := c.spec()
		ref := lexm.NewRef(spec)
		overlap := false
		for _, x := range probes(c) {
			in := []byte(string(x))
			if string([]rune(string(in))) != string(x) {
				continue // surrogate: not representable
			}
			win, end := ref.Step(0, in, 0, nil)
			want := "reject"
			if win >= 0 && end == len(in) {
				want = spec.Modes[0].Rules[win].Name
			}
			tok, outc := runTable(m, x)
			got := outc
			if outc == "accept" {
				got = byVal[tok]
			}
			run.Eval(1)
			if want != "reject" {
				overlap = true
			}
			if got != want {
				ds[i] = fmt.Sprintf("emitted table labels input %q (code points %v) as %s, the rules say %s", string(x), x, got, want)
				break
			}
		}
		if overlap && len(c.Rules) >= 2 {
			run.Nontrivial(c.Lox)
		}
	}
	return ds, nil
}

func TestC15(t *testing.T) {
	run := ev.Start("C15")
	defer run.Finish(t)
	run.Rule = "level 1: rang3.Flatten/Normalize on EVERY list of <=3 ranges over the universe 0..7 and Subtract on every pair of lists of <=2 ranges over 0..5 (exhaustive), the same shapes shifted to U+10FFFF, plus random lists of <=8 ranges over the full code space with boundary bias; oracle = interval-set semantics, output sorted/disjoint(/non-touching), callbacks replayed on a multiset (Flatten: merged pair is the exact union; Normalize: every original range stays the exact disjoint union of its pieces, pieces pairwise equal or disjoint). " +
		"level 2: class expressions (ranges, singles, escapes, negation, difference) rendered with documented spellings, parsed by the real front end; GetRanges() compared with the set-theoretic meaning. " +
		"level 3: several overlapping single-class tokens plus literals in one mode (a third of the specifications with some of the expressions behind macros, declared before or after their use) through the real codegen.Generate; the emitted table, decoded by its documented format, must label every boundary code point (endpoints +-1, 0, U+10FFFF), every literal and every single-code-point mutation of a literal exactly as the rules do (earliest rule containing it). " +
		"non-trivial = list with >=2 ranges / class with negation, difference or >=2 items / table spec with >=2 rules where some probe is accepted"
	run.Assumptions = []string{"interval-set reference in lib/lexm", "surrogate code points cannot occur in inputs"}

	type replayCase struct {
		Kind    string
		Ranges  []R        `json:",omitempty"`
		A, B    []R        `json:",omitempty"`
		Classes *ClassCase `json:",omitempty"`
		Table   *TableCase `json:",omitempty"`
		Detail  string     `json:",omitempty"`
	}
	evalReplay := func(rc *replayCase) string {
		switch rc.Kind {
		case "flatten":
			return checkFlatten(rc.Ranges)
		case "normalize":
			return checkNormalize(rc.Ranges)
		case "subtract":
			return checkSubtract(rc.A, rc.B)
		case "classes":
			return evalClasses(run, rc.Classes)
		case "table":
			ds, err := evalTables(run, []*TableCase{rc.Table})
			if err != nil {
				run.HarnessError("%v", err)
			}
			return ds[0]
		}
		return ""
	}
	report := func(rc *replayCase, d string) {
		rc.Detail = d
		run.Violation(d, rc)
	}
	if run.Replay != "" {
		var rc replayCase
		if err := ev.LoadReplay(run.Replay, &rc); err != nil {
			run.HarnessError("replay: %v", err)
		}
		if d := evalReplay(&rc); d != "" {
			report(&rc, d)
		}
		return
	}
	for _, f := range run.CanonFiles() {
		var rc replayCase
		if err := ev.LoadReplay(f, &rc); err != nil {
			run.HarnessError("canon %s: %v", f, err)
		}
		run.Class("replay-tier")
		if d := evalReplay(&rc); d != "" {
			report(&rc, d)
		}
	}
	if run.Violations() > 0 {
		return
	}
	if d := level1Exhaustive(run); d != "" {
		report(&replayCase{Kind: "exhaustive"}, d)
		return
	}
	// level 1 random
	f := run.Check("ranges", run.N(6000, 100000), 8, func(rt *rapid.T, fail ev.FailFunc) {
		var ends []rune
		n := rapid.IntRange(1, 8).Draw(rt, "n")
		var l []R
		for i := 0; i < n; i++ {
			l = append(l, genR(rt, &ends))
		}
		run.Eval(1)
		if n >= 2 {
			run.Nontrivial("F" + showRs(l))
		}
		if d := checkFlatten(l); d != "" {
			fail(&replayCase{Kind: "flatten", Ranges: l}, "%s", d)
		}
		seen := map[R]bool{}
		var dl []R
		for _, r := range l {
			if !seen[r] {
				seen[r] = true
				dl = append(dl, r)
			}
		}
		if d := checkNormalize(dl); d != "" {
			fail(&replayCase{Kind: "normalize", Ranges: dl}, "%s", d)
		}
		var b []R
		for i, m := 0, rapid.IntRange(0, 5).Draw(rt, "m"); i < m; i++ {
			b = append(b, genR(rt, &ends))
		}
		if d := checkSubtract(l, b); d != "" {
			fail(&replayCase{Kind: "subtract", A: l, B: b}, "%s", d)
		}
	})
	if f != nil {
		rc, _ := f.Case.(*replayCase)
		if rc == nil {
			run.HarnessError("rapid failure without a case: %s\n%s", f.Msg, f.Log)
		}
		report(rc, f.Msg)
		return
	}
	// level 2
	f = run.Check("classes", run.N(3000, 50000), 8, func(rt *rapid.T, fail ev.FailFunc) {
		s := lexgen.GenSpec(rt, lexgen.Opts{MaxRules: 1, Depth: 1})
		_ = s
		cc := &ClassCase{}
		for i, n := 0, rapid.IntRange(1, 4).Draw(rt, "n"); i < n; i++ {
			cc.Classes = append(cc.Classes, lexgen.GenClassAny(rt))
		}
		if d := evalClasses(run, cc); d != "" {
			fail(&replayCase{Kind: "classes", Classes: cc}, "%s", d)
		}
		run.Sample("classes", cc.Lox)
	})
	if f != nil {
		rc, _ := f.Case.(*replayCase)
		if rc == nil {
			run.HarnessError("rapid failure without a case: %s\n%s", f.Msg, f.Log)
		}
		report(rc, f.Msg)
		return
	}
	// level 3
	n3 := run.N(1200, 20000)
	const batch = 300
	for done := 0; done < n3; done += batch {
		var cases []*TableCase
		want := min(batch, n3-done)
		fc := run.Check(fmt.Sprintf("tables-%d", done), want, 1, func(rt *rapid.T, fail ev.FailFunc) {
			tc := &TableCase{}
			if rapid.IntRange(0, 3).Draw(rt, "shared") == 0 {
				// a handful of ranges over a small alphabet, each used by several rules and at
				// several places (after a prefix, before a suffix): the same range is owned by many
				// automaton states and is cut again and again by its neighbours
				var pool []*lexm.Expr
				mk := func(lo, hi rune) *lexm.Expr {
					return &lexm.Expr{Kind: "class", Set: []lexm.Rng{{Lo: lo, Hi: hi}}}
				}
				// a laminar family: a base range, cut into two parts, one of the parts cut again, ...
				lo0 := rune('a' + rapid.IntRange(0, 3).Draw(rt, "lo"))
				pool = append(pool, mk(lo0, lo0+rune(rapid.IntRange(3, 9).Draw(rt, "w"))))
				for i, n := 0, rapid.IntRange(1, 4).Draw(rt, "ncut"); i < n; i++ {
					src := pool[rapid.IntRange(0, len(pool)-1).Draw(rt, "cutsrc")].Set[0]
					if src.Hi == src.Lo {
						continue
					}
					at := src.Lo + rune(rapid.IntRange(0, int(src.Hi-src.Lo)-1).Draw(rt, "cutat"))
					switch rapid.IntRange(0, 2).Draw(rt, "cutkeep") {
					case 0:
						pool = append(pool, mk(src.Lo, at), mk(at+1, src.Hi))
					case 1:
						pool = append(pool, mk(src.Lo, at))
					default:
						pool = append(pool, mk(at+1, src.Hi))
					}
				}
				for i, n := 0, rapid.IntRange(0, 2).Draw(rt, "npool"); i < n; i++ {
					lo := rune('a' + rapid.IntRange(0, 9).Draw(rt, "lo2"))
					pool = append(pool, mk(lo, lo+rune(rapid.IntRange(0, 5).Draw(rt, "w2"))))
				}
				for i, n := 0, rapid.IntRange(3, 10).Draw(rt, "nr"); i < n; i++ {
					e := &lexm.Expr{Kind: "seq"}
					if k := rapid.IntRange(0, 3).Draw(rt, "pre"); k > 0 {
						e.Kids = append(e.Kids, &lexm.Expr{Kind: "lit", Lit: string(rune('0' + k))})
					}
					e.Kids = append(e.Kids, pool[rapid.IntRange(0, len(pool)-1).Draw(rt, "cls")])
					if k := rapid.IntRange(0, 3).Draw(rt, "suf"); k > 0 {
						e.Kids = append(e.Kids, &lexm.Expr{Kind: "lit", Lit: string("!?#"[k-1])})
					}
					if len(e.Kids) == 1 {
						e = e.Kids[0]
					}
					tc.Rules = append(tc.Rules, e)
				}
				// at least one sequence so that the probes take the combinational path
				tc.Rules = append(tc.Rules, &lexm.Expr{Kind: "seq", Kids: []*lexm.Expr{{Kind: "lit", Lit: "0"}, pool[0]}})
				run.Class("level3:shared-range-specs")
				cases = append(cases, tc)
				return
			}
			viaMacro := rapid.IntRange(0, 2).Draw(rt, "via-macro") == 0
			for i, n := 0, rapid.IntRange(2, 6).Draw(rt, "n"); i < n; i++ {
				if rapid.IntRange(0, 2).Draw(rt, "lit") == 0 {
					tc.Rules = append(tc.Rules, lexgen.GenLitAny(rt))
				} else if viaMacro {
					tc.Rules = append(tc.Rules, lexgen.GenClassRich(rt))
				} else {
					tc.Rules = append(tc.Rules, lexgen.GenClassAny(rt))
				}
				if viaMacro {
					tc.Macro = append(tc.Macro, rapid.Bool().Draw(rt, "macro"))
				}
			}
			if viaMacro {
				tc.Late = rapid.IntRange(0, 3).Draw(rt, "late") == 0
				run.Class("level3:specs-with-macros")
			}
			cases = append(cases, tc)
		})
		if fc != nil {
			run.HarnessError("collect failed: %s\n%s", fc.Msg, fc.Log)
		}
		ds, err := evalTables(run, cases)
		if err != nil {
			run.HarnessError("%v", err)
		}
		for i, c := range cases {
			run.Class("level3:specs")
			if i == 0 {
				run.Sample("table", c.Lox)
			}
			if ds[i] != "" {
				report(&replayCase{Kind: "table", Table: c}, ds[i])
				return
			}
		}
	}
	run.RequireClass("class:negated", 100)
	run.RequireClass("class:difference", 100)
}
