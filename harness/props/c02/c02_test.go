// C02 — the lexer emits the longest viable match; the earliest declared rule wins.
package c02

import (
	"testing"

	"github.com/dcaiafa/lox/verifharness/lib/ev"
	"github.com/dcaiafa/lox/verifharness/lib/lexcheck"
	"github.com/dcaiafa/lox/verifharness/lib/lexgen"
	"github.com/dcaiafa/lox/verifharness/lib/lexm"
)

func TestC02(t *testing.T) {
	run := ev.Start("C02")
	defer run.Finish(t)
	run.Rule = "random lexer specifications (literals, classes with negation and difference, '.', groups, | ? * +, acyclic macros; tokens, @discard / @emit / accumulating fragments; 0-2 named modes) that satisfy the precondition by construction (greedy operators, non-empty classes, no nullable rule); code points from a boundary-biased pool (NUL, U+007F/80, U+07FF/800, U+D7FF/E000, U+FFFD, U+FFFF/10000, U+10FFFF, neighbours of class endpoints) x inputs sampled from the rules' languages along a walk of the mode graph, with noise, near misses, cuts and invalid UTF-8; " +
		"oracle = Brzozowski-derivative reference lexer (longest run that is a prefix of some match, then earliest rule matching exactly that run, else error), compared token by token (type, byte offset, text) with the compiled state machine driven by the real simplelexer, up to and including the first error; " +
		"non-trivial = input with >=2 tokens in which a run was matched by >=2 rules or an accepting proper prefix was extended; distinct by (spec text, input)"
	run.Assumptions = []string{"derivative-based reference lexer in lib/lexm", "bytes are decoded as bytes.Reader.ReadRune does (invalid byte = U+FFFD, width 1)", "after a @pop_mode on an empty stack behaviour is unspecified: streams are compared up to that point"}
	classify := func(run *ev.Run, info lexm.Info, ref []lexm.Tok) bool {
		if info.Priority {
			run.Class("priority-exercised")
		}
		if info.Extended {
			run.Class("longest-match-exercised")
		}
		if len(ref) > 0 && ref[len(ref)-1].Kind == "ERROR" {
			run.Class("ends-in-error")
		}
		return len(ref) >= 3 && (info.Priority || info.Extended)
	}
	o := lexgen.Opts{MaxModes: 2, ModeActs: true, Frags: true, Macros: true, BigPct: 3}
	lexcheck.RunCheck(run, o, 320, 5000, 30, classify, nil)
	if run.Replay == "" && run.Violations() == 0 {
		run.RequireClass("priority-exercised", 40)
		run.RequireClass("longest-match-exercised", 100)
	}
}
