// C16 — _onBounds reports the first and last token of every non-empty reduction.
package c16

import (
	"testing"

	"github.com/dcaiafa/lox/verifharness/lib/ev"
	"github.com/dcaiafa/lox/verifharness/lib/treecheck"
)

func TestC16(t *testing.T) {
	run := ev.Start("C16")
	defer run.Finish(t)
	run.Rule = "as C03, grammars with nullable rules over-weighted (nullable at start/middle/end template), every grammar compiled twice: with and without _onBounds; " +
		"oracle = for every reduction of the validated reference tree in reduction order: user production -> action event then, iff the span is non-empty, one _onBounds(result, first, last token); generated list/optional nodes -> _onBounds with the value gathered so far and its span; never a call for an empty span; " +
		"differential: tree, action log, result and number of tokens read are identical with and without _onBounds; for *! helpers only the value and begin<=end are compared (the statement does not say whether discarded elements count); " +
		"second part (inputs with syntax errors, @error productions, half of the '@error TOKEN' actions hand the token back with recoverLookahead; sugar restricted to x? x* x+ so that the leaves of the built value are exactly the span): for every _onBounds call whose value holds no Error, begin / end are the value's first / last leaf token; " +
		"non-trivial = sentence whose tree has a node with an empty child at its left or right edge; distinct by (grammar text, sentence)"
	run.Assumptions = []string{"reference parser tree is self-certified"}
	// replay files of the second part
	type recReplay struct {
		Kind string
		Case *RecCase
	}
	oneRec := func(file string) bool {
		var rr recReplay
		if err := ev.LoadReplay(file, &rr); err != nil || rr.Kind != "recovery" || rr.Case == nil {
			return false
		}
		ds, bad, err := evalRec(run, []*RecCase{rr.Case}, false)
		if err != nil {
			run.HarnessError("%v", err)
		}
		if ds[0] != "" {
			rr.Case.Detail = ds[0]
			if bad[0] != nil {
				rr.Case.Inputs = [][]int{bad[0]}
			}
			run.Violation(ds[0], map[string]any{"Kind": "recovery", "Case": rr.Case})
		}
		return true
	}
	if run.Replay != "" {
		if oneRec(run.Replay) {
			return
		}
	} else {
		for _, f := range run.CanonFiles() {
			if oneRec(f) {
				run.Class("replay-tier")
			}
		}
		if run.Violations() > 0 {
			return
		}
	}
	treecheck.RunCheck(run, "C16", treecheck.Mode{OnBounds: true, Diff: true}, 240, 3000, true)
	if run.Replay == "" && run.Violations() == 0 {
		run.RequireClass("tree-with-empty-child-at-an-edge", 100)
		recoveryPhase(run)
	}
}
