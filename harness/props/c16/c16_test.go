// C16 — _onBounds reports the first and last token of every non-empty reduction.
package c16

import (
	"testing"

	"github.com/dcaiafa/lox/verifharness/lib/ev"
	"github.com/dcaiafa/lox/verifharness/lib/treecheck"
)

func TestC16(t *testing.T) {
	run := ev.Start("C16")
	defer run.Finish(t)
	run.Rule = "as C03, grammars with nullable rules over-weighted (nullable at start/middle/end template), every grammar compiled twice: with and without _onBounds; " +
		"oracle = for every reduction of the validated reference tree in reduction order: user production -> action event then, iff the span is non-empty, one _onBounds(result, first, last token); generated list/optional nodes -> _onBounds with the value gathered so far and its span; never a call for an empty span; " +
		"differential: tree, action log, result and number of tokens read are identical with and without _onBounds; for *! helpers only the value and begin<=end are compared (the statement does not say whether discarded elements count); " +
		"non-trivial = sentence whose tree has a node with an empty child at its left or right edge; distinct by (grammar text, sentence)"
	run.Assumptions = []string{"reference parser tree is self-certified"}
	treecheck.RunCheck(run, "C16", treecheck.Mode{OnBounds: true, Diff: true}, 240, 3000, true)
	if run.Replay == "" && run.Violations() == 0 {
		run.RequireClass("tree-with-empty-child-at-an-edge", 100)
	}
}
