package c16

import (
	"fmt"
	"regexp"
	"strconv"
	"strings"

	"github.com/dcaiafa/lox/verifharness/lib/cfggen"
	"github.com/dcaiafa/lox/verifharness/lib/cfgm"
	"github.com/dcaiafa/lox/verifharness/lib/ev"
	"github.com/dcaiafa/lox/verifharness/lib/loxb"
	"github.com/dcaiafa/lox/verifharness/lib/pbatch"
	"pgregory.net/rapid"
)

// Second part of C16: _onBounds while syntax errors are being recovered, including error actions
// that hand the token after @error back with recoverLookahead.
//
// There is no reference parse for inputs with errors, so the oracle is a validity predicate over
// the calls themselves: the value passed to _onBounds is the tree the actions built, and in this
// grammar family (x?, x*, x+ only: nothing is dropped from the tree, no separators) the tokens at
// the leaves of that tree ARE the reduction's span. So for every call whose tree holds no Error
// value, begin / end must be the first / last leaf token. Calls whose tree holds an Error are not
// judged (the statement does not say what the span of a recovered stretch is).

type RecCase struct {
	G      *cfgm.G
	Inputs [][]int
	Lox    string `json:",omitempty"`
	Detail string `json:",omitempty"`
}

func genRecCase(rt *rapid.T, run *ev.Run) *RecCase {
	for try := 0; try < 20; try++ {
		g := cfggen.GenG(rt, cfggen.Opts{Sugar: true, Guarded: rapid.Bool().Draw(rt, "guarded"), SugarPct: 40, MaxRul: 5})
		for ri := range g.Rules {
			for pi := range g.Rules[ri].Prods {
				for ti := range g.Rules[ri].Prods[pi].Terms {
					switch t := &g.Rules[ri].Prods[pi].Terms[ti]; t.Kind {
					case cfgm.KStarF:
						t.Kind = cfgm.KStar
					case cfgm.KPlusF:
						t.Kind = cfgm.KPlus
					case cfgm.KList:
						t.Kind, t.Sep, t.SepTk = cfgm.KPlus, "", false
					case cfgm.KListOpt:
						t.Kind, t.Sep, t.SepTk = cfgm.KStar, "", false
					}
				}
			}
		}
		tok := func(l string) cfgm.Term {
			return cfgm.Term{Kind: cfgm.KSym, Name: g.Toks[rapid.IntRange(0, len(g.Toks)-1).Draw(rt, l)], IsTok: true}
		}
		for k, n := 0, rapid.IntRange(1, 2).Draw(rt, "nerr"); k < n; k++ {
			ri := rapid.IntRange(0, len(g.Rules)-1).Draw(rt, "erule")
			p := cfgm.Prod{Terms: []cfgm.Term{{Kind: cfgm.KErr}, tok("sync")}} // the shape whose action may hand the token back
			if rapid.IntRange(0, 3).Draw(rt, "eshape") == 0 {
				p.Terms = []cfgm.Term{tok("open"), {Kind: cfgm.KErr}, tok("close")}
			}
			g.Rules[ri].Prods = append(g.Rules[ri].Prods, p)
		}
		lx := loxb.Front1(g.Lox())
		if lx.Panic != nil || !lx.OK || lx.T.HasConflicts {
			run.Class("recovery:gen-rejected-or-conflicts")
			continue
		}
		p := cfgm.Desugar(g)
		c := &RecCase{G: g}
		seen := map[string]bool{}
		for k := 0; k < 60 && len(c.Inputs) < 30; k++ {
			w := cfggen.StripErr(cfggen.Sentence(rt, p, rapid.IntRange(3, 9).Draw(rt, "b")))
			for m, nm := 0, rapid.IntRange(1, 3).Draw(rt, "nmut"); m < nm; m++ {
				w = cfggen.Mutate(rt, w, 2, p.NT)
			}
			if len(w) == 0 || len(w) > 50 || seen[fmt.Sprint(w)] {
				continue
			}
			seen[fmt.Sprint(w)] = true
			c.Inputs = append(c.Inputs, w)
		}
		if len(c.Inputs) > 0 {
			return c
		}
	}
	return nil
}

var boundsEv = regexp.MustCompile(`^B(.*)@(-?\d+):(-?\d+)$`)
var leaf = regexp.MustCompile(`\bt(\d+)\b|\bE(-?\d+)\b`)

// judge checks every _onBounds event of one parse; returns a violation detail or "".
func judge(run *ev.Run, log []string) string {
	for _, e := range log {
		m := boundsEv.FindStringSubmatch(e)
		if m == nil {
			continue
		}
		begin, _ := strconv.Atoi(m[2])
		end, _ := strconv.Atoi(m[3])
		first, last, hasErr := -1, -1, false
		for _, l := range leaf.FindAllStringSubmatch(m[1], -1) {
			if l[2] != "" {
				hasErr = true
				break
			}
			x, _ := strconv.Atoi(l[1])
			if first < 0 {
				first = x
			}
			last = x
		}
		run.Eval(1)
		switch {
		case hasErr:
			run.Class("recovery:bounds-call-over-an-Error(not judged)")
		case first < 0:
			return fmt.Sprintf("_onBounds was called for a value without any token: %s", e)
		case begin != first || end != last:
			return fmt.Sprintf("_onBounds(%s) reported tokens #%d..#%d, the value's first and last tokens are #%d..#%d", m[1], begin, end, first, last)
		default:
			run.Class("recovery:bounds-calls-judged")
		}
	}
	return ""
}

func evalRec(run *ev.Run, cases []*RecCase, count bool) ([]string, [][]int, error) {
	pcs := make([]*pbatch.Case, len(cases))
	for i, c := range cases {
		pcs[i] = &pbatch.Case{G: c.G, Inputs: c.Inputs, OnBounds: true, RecoverLA: true}
	}
	outs, err := pbatch.Run(pcs, true)
	ds := make([]string, len(cases))
	bad := make([][]int, len(cases))
	if ge, ok := err.(*pbatch.GenCodeError); ok {
		ds[ge.CaseIndex] = "lox succeeded but the generated parser does not compile: " + ge.Output
		return ds, bad, nil
	}
	if err != nil {
		return nil, nil, err
	}
	for i, c := range cases {
		c.Lox = pcs[i].LoxText
		if !outs[i].GenOK {
			ds[i] = "codegen.Generate rejects an accepted grammar with a matching action file: " + outs[i].GenDiag + outs[i].GenPanic
			continue
		}
		for k, w := range c.Inputs {
			r := outs[i].Results[k]
			if r.Skipped {
				continue
			}
			handed := false
			for _, e := range r.Log {
				if strings.HasPrefix(e, "R") {
					handed = true
				}
			}
			if count {
				if r.Errs > 0 {
					run.Class("recovery:parses-with-delivered-errors")
				}
				if handed {
					run.Class("recovery:parses-with-recoverLookahead")
					run.Nontrivial(c.Lox + "|" + fmt.Sprint(w))
				}
				if r.Panic != "" {
					// step bounds and misuse of recoverLookahead by the random action say nothing about _onBounds;
					// the events logged before are still judged
					run.Class("recovery:parse-ended-by-" + strings.Fields(r.Panic + " ?")[0])
				}
			}
			if d := judge(run, r.Log); d != "" {
				ds[i] = fmt.Sprintf("input %v: %s", w, d)
				bad[i] = w
				break
			}
		}
	}
	return ds, bad, nil
}

func recoveryPhase(run *ev.Run) {
	report := func(c *RecCase, d string, w []int) {
		c.Detail = d
		if w != nil {
			c.Inputs = [][]int{w}
		}
		run.Violation(d, map[string]any{"Kind": "recovery", "Case": c})
	}
	n := run.N(120, 2000)
	const batch = 40
	for done := 0; done < n; done += batch {
		var cases []*RecCase
		want := min(batch, n-done)
		fc := run.Check(fmt.Sprintf("recovery-collect-%d", done), want, 1, func(rt *rapid.T, fail ev.FailFunc) {
			if c := genRecCase(rt, run); c != nil {
				cases = append(cases, c)
			}
		})
		if fc != nil {
			run.HarnessError("collect failed: %s\n%s", fc.Msg, fc.Log)
		}
		ds, bad, err := evalRec(run, cases, true)
		if err != nil {
			run.HarnessError("%v", err)
		}
		for i, c := range cases {
			if i == 0 {
				run.Sample("recovery-case", map[string]any{"lox": c.Lox, "inputs": len(c.Inputs)})
			}
			if ds[i] != "" {
				report(c, ds[i], bad[i])
				return
			}
		}
	}
	run.RequireClass("recovery:parses-with-recoverLookahead", 50)
	run.RequireClass("recovery:bounds-calls-judged", 1000)
}
