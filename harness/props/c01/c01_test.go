// C01 — the generated parser accepts exactly L(G).
package c01

import (
	"fmt"
	"strings"
	"testing"

	"github.com/dcaiafa/lox/verifharness/lib/cfggen"
	"github.com/dcaiafa/lox/verifharness/lib/cfgm"
	"github.com/dcaiafa/lox/verifharness/lib/ev"
	"github.com/dcaiafa/lox/verifharness/lib/loxb"
	"github.com/dcaiafa/lox/verifharness/lib/pbatch"
	"github.com/dcaiafa/lox/verifharness/lib/shrink"
	"pgregory.net/rapid"
)

// Case: one grammar and token sequences (terminal indices: 2.. = tokens in declaration order).
type Case struct {
	G      *cfgm.G
	Inputs [][]int
	Long   [][]int `json:",omitempty"` // long inputs: a sentence by construction and a mutation of it
	Lox    string  `json:",omitempty"`
	Detail string  `json:",omitempty"`
}

func genCase(rt *rapid.T, run *ev.Run, nInputs int) *Case {
	for try := 0; try < 6; try++ {
		if c := genCase1(rt, run, nInputs); c != nil {
			return c
		}
	}
	return nil
}

func genCase1(rt *rapid.T, run *ev.Run, nInputs int) *Case {
	o := cfggen.Opts{Shapes: true, Styles: true, Sugar: rapid.IntRange(0, 9).Draw(rt, "sugar") < 6,
		Err: rapid.IntRange(0, 9).Draw(rt, "err") == 0, HugePct: 1}
	g := cfggen.GenG(rt, o)
	lx := loxb.Front1(g.Lox())
	if lx.Panic != nil || !lx.OK {
		run.Class("gen:front-end-rejected-or-panicked")
		return nil
	}
	if lx.T.HasConflicts {
		run.Class("gen:conflicts(C04's subject)")
		return nil
	}
	p := cfgm.Desugar(g)
	c := &Case{G: g, Inputs: cfggen.Inputs(rt, p, nInputs, 30)}
	if p.HasRecursion() && !cfggen.HasErr(g) && rapid.IntRange(0, 1).Draw(rt, "long") == 0 {
		// one long sentence (a member by construction) and one mutation of it (verdict of the
		// reference LALR(1) parser, which is linear; Earley is cubic)
		if w := cfggen.LongSentence(rt, p, rapid.IntRange(300, 2500).Draw(rt, "longlen")); len(w) >= 100 && len(w) <= 20000 {
			c.Long = append(c.Long, w, cfggen.Mutate(rt, w, 2, p.NT))
		}
	}
	return c
}

// oracle decides membership: Earley for inputs of up to 120 tokens, the reference LALR(1) parser
// (linear) beyond that. known=false if the reference cannot be built for a long input.
type oracle struct {
	p   *cfgm.Plain
	ref *cfgm.RefLALR
}

func (o *oracle) member(w []int) (is, known bool) {
	if len(w) <= 120 {
		return cfgm.Earley(o.p, w), true
	}
	if o.ref == nil {
		o.ref = cfgm.BuildRef(o.p, 3000)
	}
	if o.ref.TooBig || o.ref.Conflict {
		return false, false
	}
	return o.ref.Parse(w), true
}

// evalA: lox's in-process table, interpreted by a plain shift/reduce loop.
func evalA(run *ev.Run, c *Case) (bad []int, detail string) {
	text := c.G.Lox()
	c.Lox = text
	lx := loxb.Front1(text)
	if lx.Panic != nil || !lx.OK || lx.T.HasConflicts {
		return nil, ""
	}
	p := cfgm.Desugar(c.G)
	account(run, p, text, c.Inputs, "A")
	orc := &oracle{p: p}
	for _, w := range append(append([][]int(nil), c.Inputs...), c.Long...) {
		want, known := orc.member(w)
		if !known {
			continue
		}
		if len(w) > 120 {
			run.Class("A:long-inputs")
		}
		got, pan := safeTableParse(lx, p.Names, w)
		if pan != "" {
			return w, fmt.Sprintf("layer A (LALR table): interpreting lox's table on [%s] panicked: %s", p.Show(w), pan)
		}
		run.Eval(1)
		if want != got {
			return w, fmt.Sprintf("layer A (LALR table): input [%s] is a sentence=%v but the table parse accepts=%v", showClip(p, w), want, got)
		}
	}
	return nil, ""
}

func showClip(p *cfgm.Plain, w []int) string {
	if len(w) > 60 {
		return fmt.Sprintf("%s ... (%d tokens)", p.Show(w[:60]), len(w))
	}
	return p.Show(w)
}

func safeTableParse(lx *loxb.Lox, names []string, w []int) (ok bool, pan string) {
	defer func() {
		if r := recover(); r != nil {
			pan = fmt.Sprint(r)
		}
	}()
	return loxb.TableParse(lx, names, w), ""
}

func account(run *ev.Run, p *cfgm.Plain, text string, inputs [][]int, layer string) {
	nullable, rec := p.HasNullableRule(), p.HasRecursion()
	if nullable {
		run.Class(layer + ":grammar-with-nullable-rule")
	}
	if rec {
		run.Class(layer + ":grammar-with-recursion")
	}
	run.Class(layer + ":grammars")
	if !nullable && !rec {
		return
	}
	var acc, rej bool
	for _, w := range inputs {
		if len(w) >= 2 {
			if cfgm.Earley(p, w) {
				acc = true
			} else {
				rej = true
			}
		}
	}
	if acc && rej {
		for _, w := range inputs {
			if len(w) >= 2 {
				run.Nontrivial(text + "|" + fmt.Sprint(w))
			}
		}
	}
}

// evalC: compiled parsers. Returns per case the first mismatching input.
func evalC(run *ev.Run, cases []*Case, count bool) (bad [][]int, details []string, err error) {
	pc := make([]*pbatch.Case, len(cases))
	for i, c := range cases {
		pc[i] = &pbatch.Case{G: c.G, Inputs: append(append([][]int(nil), c.Inputs...), c.Long...)}
	}
	outs, err := pbatch.Run(pc, true)
	if ge, ok := err.(*pbatch.GenCodeError); ok {
		bad = make([][]int, len(cases))
		details = make([]string, len(cases))
		bad[ge.CaseIndex] = []int{}
		details[ge.CaseIndex] = "lox succeeded but the generated parser does not compile: " + ge.Output
		return bad, details, nil
	}
	if err != nil {
		return nil, nil, err
	}
	bad = make([][]int, len(cases))
	details = make([]string, len(cases))
	for i, c := range cases {
		c.Lox = pc[i].LoxText
		o := outs[i]
		if !o.GenOK {
			// in-process front end accepted this grammar, the full generator must too
			lx := loxb.Front1(c.Lox)
			if lx.OK && !lx.T.HasConflicts {
				bad[i] = []int{}
				details[i] = "codegen.Generate rejects a conflict-free grammar with a matching action file: " + o.GenDiag + o.GenPanic
			}
			continue
		}
		p := cfgm.Desugar(c.G)
		if count {
			account(run, p, c.Lox, c.Inputs, "C")
		}
		orc := &oracle{p: p}
		for k, w := range pc[i].Inputs {
			r := o.Results[k]
			if r.Skipped {
				continue
			}
			want, known := orc.member(w)
			if !known {
				continue
			}
			if count && len(w) > 120 {
				run.Class("C:long-inputs")
			}
			got := r.OK && r.Errs == 0 && r.Panic == ""
			if count {
				run.Eval(1)
			}
			if want != got {
				bad[i] = w
				details[i] = fmt.Sprintf("layer C (compiled parser): input [%s] is a sentence=%v but parse() returned ok=%v errors-delivered=%d panic=%q", showClip(p, w), want, r.OK, r.Errs, r.Panic)
				break
			}
		}
	}
	return bad, details, nil
}

func TestC01(t *testing.T) {
	run := ev.Start("C01")
	defer run.Finish(t)
	run.Rule = "random conflict-free grammars without precedence (templates + shape library, 60% with ? * + *! @list sugar, 10% with @error productions, rendering varied) x token sequences (random derivations, 1-2 step mutants, short arbitrary strings); " +
		"oracle = Earley recogniser on the documented desugaring, both directions; layer A interprets lox's LALR table, layer C runs the compiled parser; a quarter of the recursive grammars also get a 300-2500 token sentence (member by construction) and one mutation of it, judged by the reference LALR(1) parser (linear); " +
		"non-trivial = (grammar, input) with |input|>=2 for grammars with a nullable rule or recursion for which both accepted and rejected inputs of length>=2 were tried; distinct by (grammar text, input)"
	run.Assumptions = []string{"Earley recogniser in lib/cfgm (independent of lox)", "a parse is clean when parse() returns true and no action received an Error value"}

	report := func(c *Case, detail string) {
		c.Detail = detail
		run.Violation(detail, c)
	}
	if run.Replay != "" {
		var c Case
		if err := ev.LoadReplay(run.Replay, &c); err != nil {
			run.HarnessError("replay: %v", err)
		}
		replayOne(run, &c, report)
		return
	}
	for _, f := range run.CanonFiles() {
		var c Case
		if err := ev.LoadReplay(f, &c); err != nil {
			run.HarnessError("canon %s: %v", f, err)
		}
		run.Class("replay-tier")
		replayOne(run, &c, report)
	}
	if run.Violations() > 0 {
		return
	}

	// ---- layer A
	nA := run.N(4000, 60000)
	f := run.Check("layerA", nA, 8, func(rt *rapid.T, fail ev.FailFunc) {
		c := genCase(rt, run, 30)
		if c == nil {
			return
		}
		if w, d := evalA(run, c); w != nil {
			fail(&Case{G: c.G, Inputs: [][]int{w}, Lox: c.Lox}, "%s", d)
		}
		run.Sample("layerA", map[string]any{"lox": c.Lox, "inputs": len(c.Inputs)})
	})
	if f != nil {
		c, _ := f.Case.(*Case)
		if c == nil {
			run.HarnessError("rapid failure without a case: %s\n%s", f.Msg, f.Log)
		}
		report(c, f.Msg)
		return
	}

	// ---- layer C: collect, batch-evaluate, shrink by batches
	nC := run.N(240, 4000)
	const batch = 80
	for done := 0; done < nC; done += batch {
		var cases []*Case
		want := batch
		if nC-done < want {
			want = nC - done
		}
		fc := run.Check(fmt.Sprintf("layerC-collect-%d", done), want*6, 1, func(rt *rapid.T, fail ev.FailFunc) {
			if len(cases) >= want {
				return
			}
			if c := genCase(rt, run, 120); c != nil {
				cases = append(cases, c)
			}
		})
		if fc != nil {
			run.HarnessError("collect failed: %s\n%s", fc.Msg, fc.Log)
		}
		bad, details, err := evalC(run, cases, true)
		if err != nil {
			run.HarnessError("%v", err)
		}
		for i, c := range cases {
			if i < 2 {
				run.Sample("layerC", map[string]any{"lox": c.Lox, "inputs": len(c.Inputs), "first": c.Inputs[:min(3, len(c.Inputs))]})
			}
			if bad[i] == nil {
				continue
			}
			fc := &Case{G: c.G, Inputs: [][]int{bad[i]}, Lox: c.Lox}
			if !strings.Contains(details[i], "TIMEOUT") {
				fc = shrinkC(run, fc)
				_, d, _ := evalC(run, []*Case{fc}, false)
				if d != nil && d[0] != "" {
					details[i] = d[0]
				}
			}
			report(fc, details[i])
			return
		}
	}
	run.RequireClass("A:grammar-with-nullable-rule", int64(nA/40))
	run.RequireClass("A:grammar-with-recursion", int64(nA/40))
	run.RequireClass("C:grammars", int64(nC/2))
}

func replayOne(run *ev.Run, c *Case, report func(*Case, string)) {
	if w, d := evalA(run, c); w != nil {
		report(c, d)
		return
	}
	bad, details, err := evalC(run, []*Case{c}, true)
	if err != nil {
		run.HarnessError("%v", err)
	}
	if bad[0] != nil {
		report(c, details[0])
	}
}

func shrinkC(run *ev.Run, c *Case) *Case {
	cands := func(c *Case) []*Case {
		var out []*Case
		for _, g := range cfggen.Reductions(c.G) {
			out = append(out, &Case{G: g, Inputs: c.Inputs})
		}
		for _, w := range cfggen.InputReductions(c.Inputs[0]) {
			out = append(out, &Case{G: c.G, Inputs: [][]int{w}})
		}
		return out
	}
	failing := func(cs []*Case) []bool {
		res := make([]bool, len(cs))
		// candidates must stay inside the domain: accepted, conflict-free, token ids valid
		var keep []*Case
		var idx []int
		for i, c := range cs {
			lx := loxb.Front1(c.G.Lox())
			if lx.Panic != nil || !lx.OK || lx.T.HasConflicts {
				continue
			}
			okTok := true
			for _, x := range c.Inputs[0] {
				if x < 2 || x >= 2+len(c.G.Toks) {
					okTok = false
				}
			}
			if !okTok {
				continue
			}
			keep = append(keep, c)
			idx = append(idx, i)
		}
		if len(keep) == 0 {
			return res
		}
		bad, _, err := evalC(run, keep, false)
		if err != nil {
			return res
		}
		for k, b := range bad {
			res[idx[k]] = b != nil
		}
		return res
	}
	return shrink.Greedy(c, cands, failing, 24)
}
