// C04 — conflicts are reported exactly when the grammar is not LALR(1), and the
// automaton of accepted grammars is the LALR(1) automaton.
package c04

import (
	"encoding/json"
	"fmt"
	"os"
	"path/filepath"
	"strings"
	"testing"
	"time"

	"github.com/dcaiafa/lox/verifharness/lib/cfggen"
	"github.com/dcaiafa/lox/verifharness/lib/cfgm"
	"github.com/dcaiafa/lox/verifharness/lib/ev"
	"github.com/dcaiafa/lox/verifharness/lib/loxb"
	"pgregory.net/rapid"
)

// Case is the replayable unit.
type Case struct {
	G    *cfgm.G
	Text string
}

type outcome struct {
	fail  string // violation description ("" = held)
	known int    // entries explained by the listed @right finding
}

// evaluate is the plain evaluator (also used by --replay).
func evaluate(run *ev.Run, c *Case, realPath bool) outcome {
	text := c.G.Lox()
	c.Text = text
	lx := loxb.Front1(text)
	if lx.Panic != nil {
		if lx.Stage == "lalr" {
			return outcome{fail: fmt.Sprintf("panic while constructing the LALR(1) tables: %v", lx.Panic)}
		}
		run.Class("frontend-panic(C12's subject)")
		return outcome{}
	}
	if !lx.OK {
		run.Class("frontend-rejected")
		run.Sample("frontend-rejected", map[string]any{"lox": text, "diag": lx.Diag})
		return outcome{}
	}
	p := cfgm.Desugar(c.G)
	ref := cfgm.BuildRef(p, lr1Cap)
	if ref.TooBig {
		run.Inconclusive(fmt.Sprintf("canonical LR(1) above %d states", lr1Cap))
		return outcome{}
	}
	run.Eval(1)
	nontrivial := len(c.G.Rules) >= 2 && ref.NStates >= 6
	if ref.Conflict {
		run.Class("verdict:conflict")
		if ref.Kinds["rr"] > 0 {
			run.Class("conflict:reduce/reduce")
		}
		if ref.Kinds["sr"] > 0 {
			run.Class("conflict:shift/reduce")
		}
		if !ref.LR1Conflict && !hasPrec(c.G) {
			run.Class("conflict:LALR-only(LR(1) is conflict-free)")
		}
		if hasPrec(c.G) && ref.Kinds["unresolved"] > 0 {
			run.Class("conflict:precedence-does-not-apply")
		}
	} else {
		run.Class("verdict:accepted")
		if ref.Kinds["prec-resolved"] > 0 {
			run.Class("accepted:precedence-resolved")
		}
	}
	if nontrivial {
		run.Nontrivial(text)
	}
	if lx.T.HasConflicts != ref.Conflict {
		if ref.Conflict {
			return outcome{fail: "lox accepts a grammar whose LALR(1) automaton has an unresolved conflict (" + describeConflict(ref) + ")"}
		}
		return outcome{fail: "lox reports conflicts for a grammar that is LALR(1) under the documented precedence rule"}
	}
	var out outcome
	if !ref.Conflict {
		mism, known := loxb.Compare(ref, lx)
		out.known = known
		if len(mism) > 0 {
			out.fail = "tables differ from the LALR(1) tables: " + strings.Join(mism, "; ")
			return out
		}
	}
	if realPath {
		// the real diagnostic path: Generate on a directory that holds only the .lox file
		dir, err := os.MkdirTemp(os.Getenv("VERIF_WORK"), "c04-")
		if err != nil {
			run.HarnessError("mkdtemp: %v", err)
		}
		defer os.RemoveAll(dir)
		os.WriteFile(filepath.Join(dir, "g.lox"), []byte(text), 0o644)
		gr := loxb.Generate(dir, false)
		run.Class("real-path-sampled")
		said := strings.Contains(gr.Diag, "grammar has conflicts")
		switch {
		case gr.Panic != nil:
			out.fail = fmt.Sprintf("codegen.Generate panicked: %v", gr.Panic)
		case gr.OK:
			out.fail = "codegen.Generate succeeded on a directory without Go sources"
		case said != ref.Conflict:
			out.fail = fmt.Sprintf("codegen.Generate says %q; reference conflict=%v", strings.TrimSpace(gr.Diag), ref.Conflict)
		}
	}
	return out
}

func hasPrec(g *cfgm.G) bool {
	for _, r := range g.Rules {
		for _, p := range r.Prods {
			if p.Prec > 0 {
				return true
			}
		}
	}
	return false
}

func describeConflict(ref *cfgm.RefLALR) string {
	for m := 0; m < ref.NStates; m++ {
		for t, a := range ref.Resolved[m] {
			if a.Count() > 1 {
				return fmt.Sprintf("state %d on %s: %s", m, ref.P.Names[t], a.String(ref.P))
			}
		}
	}
	return "?"
}

// lr1Cap bounds the canonical LR(1) collection of the reference (lower inside native fuzz workers,
// whose watchdog kills a call that takes more than 10 s).
var lr1Cap = 3000

const knownRight = "C05-right-assoc"

func TestC04(t *testing.T) {
	run := ev.Start("C04")
	defer run.Finish(t)
	run.Rule = "random grammars (templates + shape library: FIRST-twice, left-recursive nullable, merged lookaheads, LR(1)-not-LALR(1), dangling else, expression tower, partial precedence; 25% with sugar, 30% with @left/@right placed legitimately and not), NOT filtered by acceptance; " +
		"oracle = canonical LR(1) merged by core + documented precedence rule; non-trivial = >=2 user rules and >=6 LALR states, distinct by grammar text. Entries with equal level and mixed associativity are undocumented: either action accepted."
	run.Assumptions = []string{
		"reference LALR(1) construction in lib/cfgm (independent of lox) is correct; it is cross-checked against Earley in C01",
		"desugaring of ? * + *! @list follows docs/markdown/parser_reference.md",
	}
	report := func(c *Case, o outcome) {
		if o.known > 0 {
			if run.Known(knownRight) {
				run.KnownHit(knownRight, "equal-level @right entries resolved as reduce (reads as @left)")
			} else if o.fail == "" {
				o.fail = "equal-level @right conflict resolved as reduce: @right groups left"
			}
		}
		if o.fail != "" {
			run.Violation(o.fail, map[string]any{"G": c.G, "lox": c.Text})
		}
	}
	if run.Replay != "" {
		var c Case
		if err := ev.LoadReplay(run.Replay, &c); err != nil {
			run.HarnessError("replay: %v", err)
		}
		report(&c, evaluate(run, &c, true))
		return
	}
	for _, f := range run.CanonFiles() {
		var c Case
		if err := ev.LoadReplay(f, &c); err != nil {
			run.HarnessError("canon %s: %v", f, err)
		}
		run.Class("replay-tier")
		report(&c, evaluate(run, &c, true))
	}
	if run.Violations() > 0 {
		return
	}
	n := run.N(6000, 150000)
	f := run.Check("grammars", n, 8, propGrammars(run, false))
	if f != nil {
		c, _ := f.Case.(*Case)
		if c == nil {
			run.HarnessError("rapid failure without a case: %s\n%s", f.Msg, f.Log)
		}
		run.Violation(f.Msg, map[string]any{"G": c.G, "lox": c.Text})
		return
	}
	if run.Thorough() {
		if cr := run.NativeFuzz("FuzzGrammars", 150*time.Second, 12); cr != nil {
			var c Case
			if err := json.Unmarshal(cr.Case, &c); err != nil {
				run.HarnessError("native fuzzing: case does not decode: %v", err)
			}
			o := evaluate(run, &c, true)
			if o.known > 0 && run.Known(knownRight) {
				o.known = 0
			}
			if o.fail != "" || o.known > 0 {
				report(&c, o)
				return
			}
			run.Inconclusive("native fuzzing: falsified case did not reproduce through the plain evaluator")
		}
	}
	if fr := run.ClassCount("frontend-rejected"); fr*50 > run.Evals() {
		run.HarnessError("generator produces grammars the front end rejects (%d of %d)", fr, run.Evals())
	}
	run.RequireClass("verdict:conflict", int64(n/20))
	run.RequireClass("verdict:accepted", int64(n/20))
	run.RequireClass("conflict:reduce/reduce", 5)
	run.RequireClass("conflict:LALR-only(LR(1) is conflict-free)", 10)
	run.RequireClass("accepted:precedence-resolved", 20)
}

// propGrammars is the generated-case property (shared by the rapid run and the
// native fuzz target).
func propGrammars(run *ev.Run, fuzz bool) func(rt *rapid.T, fail ev.FailFunc) {
	return func(rt *rapid.T, fail ev.FailFunc) {
		o := cfggen.Opts{Shapes: true, Styles: true, HugePct: 1}
		if fuzz {
			o.HugePct = 0
		}
		roll := rapid.IntRange(0, 99).Draw(rt, "mix")
		o.Sugar = roll < 25
		o.Prec = roll >= 70
		g := cfggen.GenG(rt, o)
		if roll >= 92 {
			// a complete operator table: every conflict is resolved by the documented rule
			g = cfggen.GenExpr(rt).G
		}
		c := &Case{G: g}
		res := evaluate(run, c, rapid.IntRange(0, 19).Draw(rt, "real") == 0 && !fuzz)
		if res.known > 0 && run.Known(knownRight) {
			run.KnownHit(knownRight, "equal-level @right entries resolved as reduce (reads as @left)")
			res.known = 0
		} else if res.known > 0 && res.fail == "" {
			res.fail = "equal-level @right conflict resolved as reduce: @right groups left"
		}
		run.Sample("grammar", c.Text)
		if res.fail != "" {
			fail(c, "%s", res.fail)
		}
	}
}

// FuzzGrammars: coverage-guided search over the same structured generator
// (thorough tier; by hand: go test -fuzz FuzzGrammars ./props/c04).
func FuzzGrammars(f *testing.F) {
	run := ev.Start("C04")
	lr1Cap = 400
	ev.FuzzTarget(f, propGrammars(run, true))
}
