// C06 — type-matched action binding: exact verdict, compiles, values flow.
package c06

import (
	"encoding/json"
	"fmt"
	"regexp"
	"strings"
	"testing"
	"time"

	"github.com/dcaiafa/lox/verifharness/lib/ev"
	"github.com/dcaiafa/lox/verifharness/lib/forge"
	"pgregory.net/rapid"
)

// ---- type universe --------------------------------------------------------------

type typ struct {
	Key     string
	Type    string // Go type expression of the rule's result
	Val     string // a non-zero value of that type (package-level singletons for identity types)
	Unnamed bool   // unnamed composite: named types with the same underlying type are assignable
	Named   string // a named type with identical underlying type (assignable when Unnamed)
	Iface   string // an interface Type implements ("" if none besides any)
	Discard bool   // has Discard() bool
	OtherNm string // for named types: another named type with identical underlying type (NOT assignable)
	ImpIf   string // an interface of a package the generated code has no other reason to import, implemented by Type
}

var universe = []typ{
	{Key: "int", Type: "int", Val: "7", OtherNm: "myIntT"},
	{Key: "string", Type: "string", Val: `"v"`, OtherNm: "myStrT"},
	{Key: "node", Type: "*nodeT", Val: "theNode", Unnamed: true, Named: "nodePT", Iface: "ifaceB", Discard: true, ImpIf: "fmt.Stringer"},
	{Key: "rec", Type: "recT", Val: `recT{3, "r"}`, Iface: "ifaceA", Discard: true, OtherNm: "rec2T", ImpIf: "fmt.Stringer"},
	{Key: "slice", Type: "[]int", Val: "[]int{1, 2}", Unnamed: true, Named: "intsT"},
	{Key: "nslice", Type: "intsT", Val: "intsT{4}", OtherNm: "ints2T"},
	{Key: "map", Type: "map[string]int", Val: `map[string]int{"k": 1}`, Unnamed: true, Named: "mapT"},
	{Key: "fn", Type: "func(int) int", Val: "theFunc", Unnamed: true, Named: "fnT"},
	{Key: "ptr", Type: "*recT", Val: "theRec", Unnamed: true, Named: "recPT", Iface: "ifaceA", ImpIf: "fmt.Stringer"},
	{Key: "chan", Type: "chan int", Val: "theChan", Unnamed: true, Named: "<-chan int"},
	{Key: "chan2", Type: "chan int", Val: "theChan", Unnamed: true, Named: "chT"},
	{Key: "iface", Type: "ifaceA", Val: `ifaceA(recT{5, "i"})`},
	{Key: "any", Type: "any", Val: "any(42)"},
	{Key: "box", Type: "boxT[int]", Val: "boxT[int]{V: 9}", OtherNm: "box2T"},
	{Key: "dur", Type: "time.Duration", Val: "3 * time.Second", OtherNm: "myDurT"},
	{Key: "buf", Type: "*bytes.Buffer", Val: "theBuf", Unnamed: true, Named: "bufPT", ImpIf: "io.Writer"},
	{Key: "sb", Type: "*strings.Builder", Val: "theSB", Unnamed: true, Named: "sbPT", ImpIf: "io.Writer"},
	{Key: "arr", Type: "[2]int", Val: "[2]int{1, 2}", Unnamed: true, Named: "arrT"},
	{Key: "ustruct", Type: "struct{ X int }", Val: "struct{ X int }{8}", Unnamed: true, Named: "xsT"},
	{Key: "tok", Type: "Token", Val: "Token{ID: 99, Idx: 99}", Discard: true, OtherNm: "tok2T"},
	// a type imported from another package that has the SAME NAME as the parser package
	{Key: "samename", Type: "hp.NodeH", Val: "hp.NodeH{V: 5}", OtherNm: "nodeH2T"},
	// ... while the parser package defines a type of that name itself
	{Key: "samename-shadow", Type: "hp.ShadowH", Val: "hp.ShadowH{V: 6}", OtherNm: "shadow2T"},
	// aliases that re-export a type the parser package cannot name itself: a type of an internal
	// package of the helper, and an unexported type of the helper
	{Key: "alias-of-internal", Type: "hp.AliasInt", Val: "hp.NewAliasInt(7)", OtherNm: "aliasInt2T"},
	{Key: "alias-of-unexported", Type: "hp.AliasHid", Val: "hp.NewAliasHid(8)", OtherNm: "aliasHid2T"},
	// a value type whose Discard has a pointer receiver (x*! elements are addressable)
	{Key: "ptr-recv-discard", Type: "pdT", Val: "pdT{N: 3}", Discard: true},
	// a local alias of a local type, and of an imported one
	{Key: "alias-local", Type: "recAliasT", Val: `recAliasT{6, "a"}`, OtherNm: "rec2T"},
	{Key: "alias-imported", Type: "durAliasT", Val: "durAliasT(5)", OtherNm: "myDurT"},
}

const decls = `
type nodeT struct{ N int }

func (n *nodeT) Discard() bool { return false }
func (n *nodeT) MB() int       { return n.N }
func (n *nodeT) String() string { return "node" }

type recT struct {
	A int
	B string
}

func (r recT) Discard() bool { return false }
func (r recT) MA() int       { return r.A }
func (r recT) String() string { return r.B }

type pdT struct{ N int }

func (p *pdT) Discard() bool { return false }

type ifaceA interface{ MA() int }
type ifaceB interface{ MB() int }
type ifaceZ interface{ NobodyHasThis() }

type boxT[T any] struct{ V T }

type (
	myIntT int
	myStrT string
	nodePT *nodeT
	rec2T  recT
	intsT  []int
	ints2T []int
	mapT   map[string]int
	fnT    func(int) int
	recPT  *recT
	chT    chan int
	box2T  boxT[int]
	myDurT time.Duration
	bufPT  *bytes.Buffer
	sbPT   *strings.Builder
	arrT   [2]int
	xsT    struct{ X int }
	tok2T  Token
	nodeH2T  hp.NodeH
	shadow2T hp.ShadowH
	aliasInt2T hp.AliasInt
	aliasHid2T hp.AliasHid
)

type (
	recAliasT = recT
	durAliasT = time.Duration
)

// ShadowH has the same name as a type of the imported helper package.
type ShadowH struct{ W string }

var (
	theNode = &nodeT{1}
	theRec  = &recT{2, "p"}
	theChan = make(chan int)
	theBuf  = bytes.NewBufferString("b")
	theSB   = &strings.Builder{}
)

func theFunc(x int) int { return x + 1 }
`

// ---- case model ---------------------------------------------------------------------

type Case struct {
	Skel        string // seq opt plus star list listopt starf err tokstar
	T           string // universe key (type of rule x)
	Param       string // how the parameter receiving x's term is typed: exact any iface assignable | neg-othernamed neg-pointer neg-iface
	Struct      string // structural layout: ok shared | neg-missing neg-arity neg-ambiguous neg-returns neg-orphan neg-results0 neg-results2
	Extra       string `json:",omitempty"` // a second use of x under another sugar (opt plus star list listopt) in a rule of its own
	ExtraBefore bool   `json:",omitempty"` // that rule is declared before the start rule
	// Beside: a further Go file in the package directory that is not part of the package proper:
	// ext-test-last / ext-test-first (external test package PKG_test in zz_test.go / a_test.go),
	// int-test-last (in-package test file), ignored-last (//go:build ignore, package main, zzgen.go),
	Beside string `json:",omitempty"`
	// Variadic: a further rule "vt = A C*" whose action takes the list through a variadic
	// parameter (cs ...Token has type []Token: a legal binding that must also compile)
	Variadic bool `json:",omitempty"`
	// Decor: further package-level declarations that mention the parser type (none of them is a
	// second parser): var-of-parser-type, var-pointer, func-and-alias
	Decor  string `json:",omitempty"`
	Detail string `json:",omitempty"`
	Lox    string `json:",omitempty"`
	Go     string `json:",omitempty"`
}

func (c *Case) typ() typ {
	for _, t := range universe {
		if t.Key == c.T {
			return t
		}
	}
	panic("unknown type " + c.T)
}

var skels = []string{"seq", "opt", "plus", "star", "list", "listopt", "starf", "err", "tokstar"}

// termType is the Go type of the term the parameter receives.
func (c *Case) termType() (string, bool) {
	t := c.typ()
	switch c.Skel {
	case "seq", "opt", "err":
		return t.Type, false
	case "tokstar":
		return "[]Token", true
	default:
		return "[]" + t.Type, true
	}
}

// paramType returns the parameter's type and whether the binding is legal.
// ok=false with legal=true means: this (type, layout) combination does not exist (skip).
func (c *Case) paramType() (p string, legal bool, exists bool) {
	t := c.typ()
	tt, isSlice := c.termType()
	switch c.Param {
	case "exact":
		return tt, true, true
	case "any":
		return "any", true, true
	case "iface":
		if isSlice || t.Iface == "" {
			return "", true, false
		}
		return t.Iface, true, true
	case "iface-imported":
		// an interface of an imported package that no term, rule or helper type mentions: the
		// generated file must not end up importing that package for nothing (or failing to)
		if isSlice || t.ImpIf == "" {
			return "", true, false
		}
		return t.ImpIf, true, true
	case "assignable":
		if isSlice {
			// []T is unnamed: a named slice type with the same underlying type is assignable
			return "listPT", true, true
		}
		if !t.Unnamed {
			return "", true, false
		}
		return t.Named, true, true
	case "neg-othernamed":
		if isSlice || t.OtherNm == "" {
			return "", false, false
		}
		return t.OtherNm, false, true
	case "neg-pointer":
		if isSlice {
			return "*" + tt, false, true
		}
		if strings.HasPrefix(t.Type, "*") {
			return strings.TrimPrefix(t.Type, "*"), false, true
		}
		if t.Type == "any" || t.Type == "ifaceA" {
			return "", false, false
		}
		return "*" + t.Type, false, true
	case "neg-iface":
		if t.Type == "any" {
			return "", false, false // any is assignable to nothing but any; ifaceZ is not: still negative
		}
		return "ifaceZ", false, true
	}
	panic("param kind " + c.Param)
}

// extra describes the second use of x: its term, the exact Go type of that term,
// the token sequences between A and B, and the number of x elements in each.
func (c *Case) extra() (term, tt string, mids [][]int, ns []int) {
	if c.Skel == "tokstar" {
		return
	}
	t := c.typ()
	switch c.Extra {
	case "opt":
		return "x?", t.Type, [][]int{{tC}, {}}, []int{1, 0}
	case "plus":
		return "x+", "[]" + t.Type, [][]int{{tC}, {tC, tC}}, []int{1, 2}
	case "star":
		return "x*", "[]" + t.Type, [][]int{{}, {tC, tC, tC}}, []int{0, 3}
	case "list":
		return "@list(x, SEP)", "[]" + t.Type, [][]int{{tC}, {tC, tSEP, tC}}, []int{1, 2}
	case "listopt":
		return "@list(x, SEP)?", "[]" + t.Type, [][]int{{}, {tC, tSEP, tC, tSEP, tC}}, []int{0, 3}
	}
	return
}

var besideKinds = []string{"", "", "", "", "ext-test-last", "ext-test-first", "int-test-last", "ignored-last", "ignored-first"}

// besideFile returns name and text of the extra file of the case ("" if none). None of them
// changes what the package is: test files and files excluded by build constraints are not part of it.
func (c *Case) besideFile() (string, string) {
	switch c.Beside {
	case "ext-test-last":
		return "zz_test.go", "package PKGNAME_test\n\nimport \"testing\"\n\nfunc TestNothing(t *testing.T) {}\n"
	case "ext-test-first":
		return "a_test.go", "package PKGNAME_test\n\nimport \"testing\"\n\nfunc TestNothing(t *testing.T) {}\n"
	case "int-test-last":
		return "zz_test.go", "package PKGNAME\n\nimport \"testing\"\n\nfunc TestNothing(t *testing.T) {}\n"
	case "ignored-last":
		return "zzgen.go", "//go:build ignore\n\npackage main\n\nfunc main() {}\n"
	case "ignored-first":
		return "agen.go", "//go:build ignore\n\npackage main\n\nfunc main() {}\n"
	}
	return "", ""
}

var extraKinds = []string{"", "", "", "opt", "plus", "star", "list", "listopt"}

var paramKinds = []string{"exact", "any", "iface", "iface-imported", "assignable", "neg-othernamed", "neg-pointer", "neg-iface"}
var structKinds = []string{"ok", "ok", "ok", "shared", "shared-mixed", "neg-missing", "neg-arity", "neg-ambiguous", "neg-returns", "neg-orphan", "neg-results0", "neg-results2"}

type rendered struct {
	lox, gofile string
	positive    bool
	uncompil    bool     // lox cannot know: *! over a type without Discard (expected to be diagnosed)
	blame       []string // strings one of which the diagnostic must contain on failure
	sentences   [][]int  // token ids
	expectN     []int    // number of x elements per sentence (-1 = error sentence)
}

const (
	tA   = 2
	tB   = 3
	tC   = 4
	tSEP = 5
)

func (c *Case) render() (*rendered, bool) {
	t := c.typ()
	p, legal, exists := c.paramType()
	if !exists {
		return nil, false
	}
	r := &rendered{positive: legal}
	var term string
	switch c.Skel {
	case "seq":
		term = "x"
		r.sentences, r.expectN = [][]int{{tA, tC, tB}}, []int{1}
	case "opt":
		term = "x?"
		r.sentences, r.expectN = [][]int{{tA, tC, tB}, {tA, tB}}, []int{1, 0}
	case "plus":
		term = "x+"
		r.sentences, r.expectN = [][]int{{tA, tC, tB}, {tA, tC, tC, tC, tB}}, []int{1, 3}
	case "star":
		term = "x*"
		r.sentences, r.expectN = [][]int{{tA, tB}, {tA, tC, tC, tB}}, []int{0, 2}
	case "list":
		term = "@list(x, SEP)"
		r.sentences, r.expectN = [][]int{{tA, tC, tB}, {tA, tC, tSEP, tC, tSEP, tC, tB}}, []int{1, 3}
	case "listopt":
		term = "@list(x, SEP)?"
		r.sentences, r.expectN = [][]int{{tA, tB}, {tA, tC, tSEP, tC, tB}}, []int{0, 2}
	case "starf":
		term = "x*!"
		r.sentences, r.expectN = [][]int{{tA, tB}, {tA, tC, tC, tB}}, []int{0, 2}
		if !t.Discard {
			r.uncompil = true
		}
	case "err":
		term = "x"
		r.sentences, r.expectN = [][]int{{tA, tC, tB}, {tA, tB}, {tA, tA, tB}}, []int{1, -1, -1}
	case "tokstar":
		term = "C*"
		r.sentences, r.expectN = [][]int{{tA, tB}, {tA, tC, tC, tB}}, []int{0, 2}
	}
	var lox strings.Builder
	lox.WriteString("@lexer\nA = 'a'\nB = 'b'\nC = 'c'\nSEP = ','\n@frag ' ' @discard\n\n@parser\n")
	// line numbers: the @start rule is on line 9
	extraTerm, extraTT, extraMid, extraN := c.extra()
	sLine, s2Line := 9, 0
	if extraTerm != "" && c.ExtraBefore {
		lox.WriteString("e = A " + extraTerm + " B\n")
		sLine++
	}
	lox.WriteString("@start s = A " + term + " B\n")
	if c.Skel == "err" {
		lox.WriteString("  | A @error B\n")
		s2Line = sLine + 1
	}
	if c.Struct == "shared" || c.Struct == "neg-returns" {
		lox.WriteString("  | B " + term + " A\n")
	}
	if c.Struct == "shared-mixed" {
		// one method for two productions whose middle terms have DIFFERENT Go types (only an
		// interface-typed parameter can take both)
		if p != "any" {
			return nil, false
		}
		lox.WriteString("  | B y A\n")
		r.sentences = append(r.sentences, []int{tB, tC, tA})
		r.expectN = append(r.expectN, 77)
	}
	if c.Variadic { // (before the second rule is written: the production belongs to s)
		lox.WriteString("  | B B vt\n")
		r.sentences = append(r.sentences, []int{tB, tB, tA, tC, tC}, []int{tB, tB, tA})
		r.expectN = append(r.expectN, 2, 0)
	}
	if extraTerm != "" {
		lox.WriteString("  | SEP e\n")
		if !c.ExtraBefore {
			lox.WriteString("e = A " + extraTerm + " B\n")
		}
		for i, mid := range extraMid {
			w := append([]int{tSEP, tA}, mid...)
			r.sentences = append(r.sentences, append(w, tB))
			r.expectN = append(r.expectN, extraN[i])
		}
	}
	xLine := strings.Count(lox.String(), "\n") + 1
	if c.Skel != "tokstar" {
		lox.WriteString("x = C\n")
	}
	if c.Struct == "shared-mixed" {
		lox.WriteString("y = C\n")
	}
	if c.Variadic {
		lox.WriteString("vt = A C*\n")
	}
	r.lox = lox.String()

	var g strings.Builder
	g.WriteString("package PKGNAME\n\nimport (\n\t\"bytes\"\n\t\"fmt\"\n\t\"io\"\n\t\"reflect\"\n\t\"strings\"\n\t\"time\"\n\n\thp \"verifscratch/helper/PKGNAME\"\n)\n\nvar _ hp.NodeH\nvar _ fmt.Stringer\nvar _ io.Writer\nvar _ = time.Second\nvar _ = strings.Repeat\nvar _ bytes.Buffer\n")
	g.WriteString(decls)
	tt, _ := c.termType()
	g.WriteString("\ntype listPT " + strings.Replace(tt, "*[]", "[]", 1) + "\n")
	if !strings.HasPrefix(tt, "[]") {
		g.Reset()
		g.WriteString("package PKGNAME\n\nimport (\n\t\"bytes\"\n\t\"fmt\"\n\t\"io\"\n\t\"reflect\"\n\t\"strings\"\n\t\"time\"\n\n\thp \"verifscratch/helper/PKGNAME\"\n)\n\nvar _ hp.NodeH\nvar _ fmt.Stringer\nvar _ io.Writer\nvar _ = time.Second\nvar _ = strings.Repeat\nvar _ bytes.Buffer\n")
		g.WriteString(decls)
		g.WriteString("\ntype listPT []int\n")
	}
	g.WriteString(`
type Token struct{ ID, Idx int }

func (t Token) Discard() bool { return false }

type prs struct {
	lox
	fails []string
	errs  int
	n     int // expected number of elements in the current sentence
}

type lexT struct {
	toks []int
	i    int
}

func (l *lexT) ReadToken() (Token, int) {
	if l.i >= len(l.toks) {
		return Token{Idx: len(l.toks)}, EOF
	}
	t := Token{ID: l.toks[l.i], Idx: l.i}
	l.i++
	return t, t.ID
}

func same(got, want any) bool {
	gv, wv := reflect.ValueOf(got), reflect.ValueOf(want)
	if gv.IsValid() && wv.IsValid() && gv.Kind() == reflect.Func && wv.Kind() == reflect.Func {
		return gv.Type() == wv.Type() && gv.Pointer() == wv.Pointer()
	}
	if gv.IsValid() && wv.IsValid() && gv.Kind() == reflect.Slice && wv.Kind() == reflect.Slice && gv.Type() == wv.Type() {
		if gv.Len() != wv.Len() || gv.IsNil() != wv.IsNil() && gv.Len() > 0 {
			return false
		}
		for i := 0; i < gv.Len(); i++ {
			if !same(gv.Index(i).Interface(), wv.Index(i).Interface()) {
				return false
			}
		}
		return true
	}
	return reflect.DeepEqual(got, want)
}

func (p *prs) check(what string, got, want any) {
	if !same(got, want) {
		p.fails = append(p.fails, what+": got "+describe(got)+", want "+describe(want))
	}
}

func describe(v any) string {
	if v == nil {
		return "<nil interface>"
	}
	rv := reflect.ValueOf(v)
	s := rv.Type().String()
	switch rv.Kind() {
	case reflect.Slice, reflect.Map:
		if rv.IsNil() {
			return s + "(nil)"
		}
		return s + " of length " + itoa(rv.Len())
	case reflect.Ptr, reflect.Chan, reflect.Func:
		if rv.IsNil() {
			return s + "(nil)"
		}
		return s + "(non-nil)"
	}
	if rv.IsZero() {
		return s + "(zero)"
	}
	return s + "(non-zero)"
}

func itoa(n int) string {
	if n < 10 {
		return string(rune('0' + n))
	}
	return itoa(n/10) + string(rune('0'+n%10))
}

type Result struct {
	OK    bool
	Errs  int
	Fails []string
	Panic string
}

func Run(toks []int, n int) (r Result) {
	p := &prs{n: n}
	defer func() {
		r.Fails, r.Errs = p.fails, p.errs
		if x := recover(); x != nil {
			r.Panic = "panic"
			if s, ok := x.(string); ok {
				r.Panic = s
			} else if e, ok := x.(error); ok {
				r.Panic = e.Error()
			}
		}
	}()
	r.OK = p.parse(&lexT{toks: toks})
	return
}
`)
	// the x action
	if c.Skel != "tokstar" {
		fmt.Fprintf(&g, "\nfunc (p *prs) on_x(c Token) %s { return %s }\n", t.Type, t.Val)
	}
	// the s action(s)
	elem := t.Type
	elemVal := t.Val
	if c.Skel == "tokstar" {
		elem = "Token"
	}
	var wantExpr string
	switch c.Skel {
	case "seq", "err":
		wantExpr = fmt.Sprintf("func() %s { var w %s = %s; return w }()", p, tt, elemVal)
	case "opt":
		wantExpr = fmt.Sprintf("func() %s { var w %s; if p.n == 1 { w = %s }; return w }()", p, tt, elemVal)
	case "tokstar":
		wantExpr = fmt.Sprintf("func() %s { var w %s; for i := 0; i < p.n; i++ { w = append(w, Token{ID: %d, Idx: 1 + i}) }; return w }()", p, tt, tC)
	default:
		wantExpr = fmt.Sprintf("func() %s { var w %s; for i := 0; i < p.n; i++ { w = append(w, %s) }; return w }()", p, tt, elemVal)
	}
	_ = elem
	body := func(ret string) string {
		if !legal {
			return "\treturn " + ret + "\n"
		}
		chk := "\tp.check(\"parameter for " + term + "\", v, " + wantExpr + ")\n"
		if c.Skel == "opt" || strings.Contains(c.Skel, "star") || c.Skel == "listopt" {
			// absent: the zero value; for interface-typed parameters an untyped nil is the zero value too
			chk = "\tif !(p.n == 0 && any(v) == nil) {\n\t" + chk + "\t}\n"
		}
		return chk + "\treturn " + ret + "\n"
	}
	sMethod := "on_s"
	writeS := func(name, ptype, rtype, ret string) {
		fmt.Fprintf(&g, "\nfunc (p *prs) %s(a Token, v %s, b Token) %s {\n%s}\n", name, ptype, rtype, body(ret))
	}
	switch c.Struct {
	case "shared-mixed":
		g.WriteString("\nfunc (p *prs) on_y(c Token) string { return \"yv\" }\n")
		fmt.Fprintf(&g, "\nfunc (p *prs) on_s(a Token, v any, b Token) int {\n\tif p.n == 77 {\n\t\tp.check(\"parameter for y in the shared method\", v, any(\"yv\"))\n\t\treturn 1\n\t}\n%s}\n", body("1"))
	case "ok", "shared":
		writeS(sMethod, p, "int", "1")
	case "neg-missing":
		r.positive = false
		r.blame = []string{fmt.Sprintf("g.lox:%d", sLine), "rule missing action method: s"}
	case "neg-arity":
		r.positive = false
		fmt.Fprintf(&g, "\nfunc (p *prs) on_s(a Token, v %s) int { return 1 }\n", p)
		r.blame = []string{fmt.Sprintf("g.lox:%d", sLine), "on_s"}
	case "neg-ambiguous":
		writeS("on_s__one", p, "int", "1")
		writeS("on_s__two", "any", "int", "1")
		if legal {
			r.positive = false
			if p == "any" {
				// both identical signatures: still two methods for one production
			}
			r.blame = []string{fmt.Sprintf("g.lox:%d", sLine), "on_s__one", "on_s__two"}
		} else {
			// only the any-typed method matches: a legal binding after all, but on_s__one is left over
			r.positive = false
			r.blame = []string{"on_s__one", fmt.Sprintf("g.lox:%d", sLine)}
		}
	case "neg-returns":
		r.positive = false
		writeS("on_s__one", p, "int", "1")
		fmt.Fprintf(&g, "\nfunc (p *prs) on_s__two(a Token, v %s, b Token, extra Token) string { return \"\" }\n", p)
		r.blame = []string{"on_s__one", "on_s__two"}
	case "neg-orphan":
		r.positive = false
		writeS(sMethod, p, "int", "1")
		g.WriteString("\nfunc (p *prs) on_nosuchrule(a Token) int { return 1 }\n")
		r.blame = []string{"on_nosuchrule"}
	case "neg-results0":
		r.positive = false
		writeS(sMethod, p, "int", "1")
		g.WriteString("\nfunc (p *prs) on_s__void(a Token) {}\n")
		r.blame = []string{"on_s__void"}
	case "neg-results2":
		r.positive = false
		writeS(sMethod, p, "int", "1")
		g.WriteString("\nfunc (p *prs) on_s__pair(a Token) (int, error) { return 1, nil }\n")
		r.blame = []string{"on_s__pair"}
	}
	switch c.Struct {
	case "neg-orphan", "neg-results0", "neg-results2", "neg-missing":
		// the diagnostic must name that very method / rule
	default:
		// the fault involves rule s: any of its productions' lines or one of its methods
		r.blame = []string{fmt.Sprintf("g.lox:%d:", sLine), fmt.Sprintf("g.lox:%d:", sLine+1), fmt.Sprintf("g.lox:%d:", sLine+2), fmt.Sprintf("g.lox:%d:", sLine+3), fmt.Sprintf("g.lox:%d:", sLine+4), "on_s"}
	}
	if extraTerm != "" {
		// the second use of x: exact parameter type, value checked like the main one
		var want string
		switch c.Extra {
		case "opt":
			want = fmt.Sprintf("func() %s { var w %s; if p.n == 1 { w = %s }; return w }()", extraTT, extraTT, elemVal)
		default:
			want = fmt.Sprintf("func() %s { var w %s; for i := 0; i < p.n; i++ { w = append(w, %s) }; return w }()", extraTT, extraTT, elemVal)
		}
		fmt.Fprintf(&g, "\nfunc (p *prs) on_e(a Token, v %s, b Token) int {\n\tif !(p.n == 0 && any(v) == nil) {\n\t\tp.check(\"parameter for second use %s\", v, %s)\n\t}\n\treturn 3\n}\n", extraTT, extraTerm, want)
		g.WriteString("\nfunc (p *prs) on_s__e(a Token, v int) int { return v }\n")
	}
	switch c.Decor {
	case "var-of-parser-type":
		g.WriteString("\nvar spareParser prs\n\nvar _ = &spareParser\n")
	case "var-pointer":
		g.WriteString("\nvar currentParser *prs\n\nvar parserPool []prs\n")
	case "func-and-alias":
		g.WriteString("\ntype prsAlias = prs\n\nfunc newPrs() prs { return prs{} }\n\nconst prsName = \"prs\"\n")
	}
	if c.Variadic {
		g.WriteString("\nfunc (p *prs) on_vt(a Token, cs ...Token) int {\n\tp.check(\"number of elements in the variadic parameter for C*\", len(cs), p.n)\n\treturn len(cs)\n}\n")
		g.WriteString("\nfunc (p *prs) on_s__vt(a Token, b Token, v int) int { return v }\n")
	}
	if c.Skel == "err" {
		g.WriteString("\nfunc (p *prs) on_s__err(a Token, e Error, b Token) int {\n\tp.errs++\n\treturn 2\n}\n")
		_ = s2Line
		if p == "any" && r.positive {
			// an any-typed parameter also accepts the Error of the second production: two methods
			// match 'A @error B', which lox must refuse
			r.positive = false
		}
	}
	_ = xLine
	r.gofile = g.String()
	if c.Struct == "neg-returns" && c.Skel == "err" {
		// on_s__err also returns int: fine
	}
	return r, true
}

// ---- evaluation -------------------------------------------------------------------------

type verdict struct {
	detail string
	kind   string
}

var castBug = regexp.MustCompile(`parameter for .*: got (\S+)\(nil\), want`)

func driverMain(pkgs []string) string {
	var d strings.Builder
	d.WriteString("package main\n\nimport (\n\t\"encoding/json\"\n\t\"os\"\n")
	for _, p := range pkgs {
		fmt.Fprintf(&d, "\t%s \"verifscratch/%s\"\n", p, p)
	}
	d.WriteString(")\n\ntype job struct {\n\tInputs [][]int\n\tN []int\n}\n\nfunc main() {\n\tvar in map[string]job\n\tif err := json.NewDecoder(os.Stdin).Decode(&in); err != nil {\n\t\tpanic(err)\n\t}\n\tout := map[string]any{}\n")
	for _, p := range pkgs {
		fmt.Fprintf(&d, "\tif j, ok := in[%q]; ok {\n\t\trs := []%s.Result{}\n\t\tfor i, w := range j.Inputs {\n\t\t\trs = append(rs, %s.Run(w, j.N[i]))\n\t\t}\n\t\tout[%q] = rs\n\t}\n", p, p, p, p)
	}
	d.WriteString("\tjson.NewEncoder(os.Stdout).Encode(out)\n}\n")
	return d.String()
}

type runResult struct {
	OK    bool
	Errs  int
	Fails []string
	Panic string
}

func eval(run *ev.Run, cases []*Case, count bool) ([]verdict, error) {
	rs := make([]*rendered, len(cases))
	besides := map[int][2]string{}
	var files []map[string]string
	for i, c := range cases {
		r, ok := c.render()
		if !ok {
			return nil, fmt.Errorf("case %d does not exist: %+v", i, c)
		}
		rs[i] = r
		c.Lox, c.Go = r.lox, r.gofile
		if n, t := c.besideFile(); n != "" {
			besides[i] = [2]string{n, t}
		}
		files = append(files, map[string]string{"g.lox": r.lox, "user.go": r.gofile,
			"../helper/PKGNAME/h.go":               "package PKGNAME\n\nimport \"verifscratch/helper/PKGNAME/internal/node\"\n\ntype NodeH struct{ V int }\n\ntype ShadowH struct{ V int }\n\ntype AliasInt = node.Node\n\nfunc NewAliasInt(v int) AliasInt { return node.Node{V: v} }\n\ntype hidden struct{ V int }\n\ntype AliasHid = hidden\n\nfunc NewAliasHid(v int) AliasHid { return hidden{V: v} }\n",
			"../helper/PKGNAME/internal/node/n.go": "package node\n\ntype Node struct{ V int }\n"})
	}
	for i, bf := range besides {
		files[i][bf[0]] = bf[1]
	}
	b, err := forge.GenerateOnly(files, false, false) // the real `go list`: the Go side is the subject
	if err != nil {
		return nil, err
	}
	defer b.Close()
	vs := make([]verdict, len(cases))
	var names []string
	type job struct {
		Inputs [][]int
		N      []int
	}
	jobs := map[string]job{}
	for i, c := range cases {
		p := b.Pkgs[i]
		r := rs[i]
		if count {
			run.Eval(1)
			run.Class("skel:" + c.Skel)
			run.Class("type:" + c.T)
			run.Class("param:" + c.Param)
			run.Class("struct:" + c.Struct)
			if c.Extra != "" {
				run.Class("second-use:" + c.Skel + "+" + c.Extra)
			}
			if c.Beside != "" {
				run.Class("beside:" + c.Beside)
			}
			if c.Variadic {
				run.Class("variadic-action")
			}
			if c.Decor != "" {
				run.Class("decor:" + c.Decor)
			}
			if r.positive {
				run.Class("expected:accept")
			} else {
				run.Class("expected:reject")
			}
			if !r.positive || c.Param != "exact" {
				run.Nontrivial(fmt.Sprint(c.Skel, c.T, c.Param, c.Struct))
			}
		}
		if p.Gen.Panic != nil {
			vs[i] = verdict{kind: "panic", detail: fmt.Sprintf("generator panicked: %v", p.Gen.Panic)}
			continue
		}
		switch {
		case r.positive && r.uncompil:
			// *! over an element type without Discard(): lox must either diagnose it or emit code that compiles
			if p.Gen.OK {
				names = append(names, p.Name)
				jobs[p.Name] = job{Inputs: r.sentences, N: r.expectN}
			}
		case r.positive && !p.Gen.OK:
			vs[i] = verdict{kind: "verdict", detail: "lox rejects a legal binding (" + c.Param + "/" + c.Struct + " on " + c.Skel + " of " + c.T + "): " + p.Gen.Diag}
		case !r.positive && p.Gen.OK:
			vs[i] = verdict{kind: "verdict", detail: "lox accepts an illegal binding (" + c.Param + "/" + c.Struct + " on " + c.Skel + " of " + c.T + ")"}
		case !r.positive:
			ok := false
			for _, bl := range r.blame {
				if strings.Contains(p.Gen.Diag, bl) {
					ok = true
				}
			}
			if !ok {
				vs[i] = verdict{kind: "diagnostic", detail: fmt.Sprintf("diagnostic names neither the production nor the method (expected one of %v): %s", r.blame, p.Gen.Diag)}
			}
		default:
			names = append(names, p.Name)
			jobs[p.Name] = job{Inputs: r.sentences, N: r.expectN}
		}
	}
	if len(names) == 0 {
		return vs, nil
	}
	var bin string
	for round := 0; ; round++ {
		var err error
		bin, err = b.Build(driverMain(names), false)
		if err == nil {
			break
		}
		be, _ := err.(*forge.BuildError)
		if be == nil {
			return nil, err
		}
		if round >= 8 {
			return nil, fmt.Errorf("driver build still failing after %d rounds:\n%s", round, be.Output)
		}
		// attribute compile errors to packages (the compiler may report only some of the failing
		// packages per run, hence the loop)
		m := regexp.MustCompile(`(c\d{4})/([\w.]+\.go):\d+`).FindAllStringSubmatch(be.Output, -1)
		blamed := false
		for _, mm := range m {
			var idx int
			fmt.Sscanf(mm[1], "c%d", &idx)
			if mm[2] == "user.go" {
				return nil, fmt.Errorf("harness-written Go does not compile:\n%s", be.Output)
			}
			if vs[idx].detail == "" {
				vs[idx] = verdict{kind: "compile", detail: "lox succeeded but the generated files do not compile with the package: " + firstErr(be.Output, mm[1])}
				blamed = true
			}
		}
		if !blamed {
			return nil, fmt.Errorf("driver build failed:\n%s", be.Output)
		}
		// rebuild without the blamed packages so that the others are still run
		var keep []string
		for _, n := range names {
			var idx int
			fmt.Sscanf(n, "c%d", &idx)
			if vs[idx].detail == "" {
				keep = append(keep, n)
			}
		}
		names = keep
		if len(names) == 0 {
			return vs, nil
		}
	}
	stdin, _ := json.Marshal(jobs)
	rr := forge.Run(bin, stdin, 5*time.Minute)
	if rr.Err != nil {
		return nil, fmt.Errorf("driver run failed: %v %s", rr.Err, rr.Stderr)
	}
	var res map[string][]runResult
	if err := json.Unmarshal(rr.Stdout, &res); err != nil {
		return nil, err
	}
	for i, c := range cases {
		p := b.Pkgs[i]
		out, ok := res[p.Name]
		if !ok || vs[i].detail != "" {
			continue
		}
		for k, r := range out {
			if count {
				run.Eval(1)
			}
			want := rs[i].expectN[k]
			switch {
			case r.Panic != "":
				vs[i] = verdict{kind: "run", detail: fmt.Sprintf("sentence %v: panic %s", rs[i].sentences[k], r.Panic)}
			case want >= 0 && (!r.OK || r.Errs > 0):
				vs[i] = verdict{kind: "run", detail: fmt.Sprintf("sentence %v did not parse cleanly", rs[i].sentences[k])}
			case len(r.Fails) > 0:
				vs[i] = verdict{kind: "value", detail: fmt.Sprintf("%s/%s on %s of %s, sentence %v: %s", c.Param, c.Struct, c.Skel, c.T, rs[i].sentences[k], strings.Join(r.Fails, "; "))}
			}
			if vs[i].detail != "" {
				break
			}
		}
	}
	return vs, nil
}

func firstErr(out, pkg string) string {
	for _, l := range strings.Split(out, "\n") {
		if strings.Contains(l, pkg+"/") {
			return strings.TrimSpace(l)
		}
	}
	return out
}

func genCase(rt *rapid.T) *Case {
	for {
		c := &Case{
			Skel:   skels[rapid.IntRange(0, len(skels)-1).Draw(rt, "skel")],
			T:      universe[rapid.IntRange(0, len(universe)-1).Draw(rt, "type")].Key,
			Param:  paramKinds[rapid.IntRange(0, len(paramKinds)-1).Draw(rt, "param")],
			Struct: structKinds[rapid.IntRange(0, len(structKinds)-1).Draw(rt, "struct")],
			Extra:  extraKinds[rapid.IntRange(0, len(extraKinds)-1).Draw(rt, "extra")],
		}
		c.ExtraBefore = c.Extra != "" && rapid.Bool().Draw(rt, "extraBefore")
		c.Beside = besideKinds[rapid.IntRange(0, len(besideKinds)-1).Draw(rt, "beside")]
		c.Variadic = rapid.IntRange(0, 5).Draw(rt, "variadic") == 0
		if c.Struct == "shared-mixed" {
			c.Param = "any" // (the only parameter type that takes both productions' terms)
		}
		c.Decor = []string{"", "", "", "", "", "var-of-parser-type", "var-pointer", "func-and-alias"}[rapid.IntRange(0, 7).Draw(rt, "decor")]
		if c.Skel == "tokstar" {
			c.T = "tok"
			c.Extra, c.ExtraBefore = "", false
		}
		if _, ok := c.render(); ok {
			return c
		}
	}
}

const knownStarF = "C06-starf-without-discard"

func TestC06(t *testing.T) {
	run := ev.Start("C06")
	defer run.Finish(t)
	run.Rule = "grammar skeletons (sequence, x?, x+, x*, @list, @list?, x*!, an @error alternative, C* over tokens) x a type universe for the rule's result (int, string, pointer, named struct, unnamed and named slice, map, func, chan, interface, any, generic instance, imported time.Duration / *bytes.Buffer / *strings.Builder, a type imported from a package whose NAME equals the parser package's name (with and without a local type of the same name), aliases (local, of an imported type, re-exporting a type of another package's internal package, re-exporting an unexported type), array, unnamed struct, Token) x how the receiving parameter is typed (identical, any, implemented interface, assignable-but-not-identical named type or <-chan; negative: other named type with equal underlying type, value vs pointer, unimplemented interface) x an optional second use of the same element rule under another sugar (x?, x+, x*, @list, @list?) in a rule declared before or after the start rule (helper rules are shared by name) x an optional further Go file beside the package's own (external or in-package test file, build-ignored package main, sorting before or after the other files) x structural layout (one method, method shared by two productions, method shared by two productions whose terms have different Go types; negative: missing method, wrong arity, two matching methods, differing return types, orphan method, 0 or 2 results); the legality of every case is known by construction (no call to go/types); " +
		"oracle: (1) lox succeeds exactly on the legal cases and a failure's diagnostic names the production's line or the method; (2) on success the package compiles with the generated files (real go list + go build); (3) at run time every action parameter equals the value the producing action returned (reflect.DeepEqual; identity for pointers, channels, funcs; zero value for an absent x?), for 2-3 sentences per skeleton; " +
		"non-trivial = negative case or parameter type not identical to the term's type; distinct by (skeleton, type, parameter kind, layout)"
	run.Assumptions = []string{"Go assignability as in the language specification", "for interface-typed parameters an absent optional may arrive as untyped nil or as the boxed zero value"}
	report := func(c *Case, d string) {
		c.Detail = d
		run.Violation(d, c)
	}
	handle := func(c *Case, v verdict) bool {
		if v.detail == "" {
			return false
		}
		if c.Skel == "starf" && !c.typ().Discard && (v.kind == "compile") && run.Known(knownStarF) {
			run.KnownHit(knownStarF, "x*! over a type without Discard(): lox exits 0, generated code does not compile")
			return false
		}
		report(c, v.detail)
		return true
	}
	one := func(c *Case) {
		vs, err := eval(run, []*Case{c}, true)
		if err != nil {
			run.HarnessError("%v", err)
		}
		handle(c, vs[0])
	}
	if run.Replay != "" {
		var c Case
		if err := ev.LoadReplay(run.Replay, &c); err != nil {
			run.HarnessError("replay: %v", err)
		}
		one(&c)
		return
	}
	for _, f := range run.CanonFiles() {
		var c Case
		if err := ev.LoadReplay(f, &c); err != nil {
			run.HarnessError("canon %s: %v", f, err)
		}
		run.Class("replay-tier")
		one(&c)
	}
	if run.Violations() > 0 {
		return
	}
	// pairwise sweep: every (sugar, second sugar, declaration order) combination once per run as a
	// positive case, with type / parameter kind / layout drawn at random
	{
		var cases []*Case
		fc := run.Check("pairwise", 1, 1, func(rt *rapid.T, fail ev.FailFunc) {
			cases = nil
			for _, sk := range skels {
				if sk == "tokstar" {
					continue
				}
				for _, ex := range extraKinds {
					if ex == "" {
						continue
					}
					for _, before := range []bool{false, true} {
						for try := 0; try < 50; try++ {
							c := &Case{Skel: sk, Extra: ex, ExtraBefore: before,
								T:      universe[rapid.IntRange(0, len(universe)-1).Draw(rt, "type")].Key,
								Param:  []string{"exact", "exact", "any", "assignable", "iface", "iface-imported"}[rapid.IntRange(0, 5).Draw(rt, "param")],
								Struct: []string{"ok", "shared"}[rapid.IntRange(0, 1).Draw(rt, "struct")],
							}
							if r, ok := c.render(); ok && r.positive && !r.uncompil {
								cases = append(cases, c)
								break
							}
						}
					}
				}
			}
		})
		if fc != nil {
			run.HarnessError("pairwise collect failed: %s\n%s", fc.Msg, fc.Log)
		}
		vs, err := eval(run, cases, true)
		if err != nil {
			run.HarnessError("%v", err)
		}
		for i, c := range cases {
			if handle(c, vs[i]) {
				return
			}
		}
		run.ClassN("pairwise-sweep-cases", len(cases))
	}
	n := run.N(160, 2400)
	const batch = 80
	seen := map[string]bool{}
	for done := 0; done < n; done += batch {
		var cases []*Case
		want := min(batch, n-done)
		fc := run.Check(fmt.Sprintf("collect-%d", done), want*3, 1, func(rt *rapid.T, fail ev.FailFunc) {
			if len(cases) >= want {
				return
			}
			c := genCase(rt)
			k := fmt.Sprint(c.Skel, c.T, c.Param, c.Struct)
			if !seen[k] {
				seen[k] = true
				cases = append(cases, c)
			}
		})
		if fc != nil {
			run.HarnessError("collect failed: %s\n%s", fc.Msg, fc.Log)
		}
		vs, err := eval(run, cases, true)
		if err != nil {
			run.HarnessError("%v", err)
		}
		for i, c := range cases {
			if i < 2 {
				run.Sample("case", map[string]any{"skeleton": c.Skel, "type": c.T, "param": c.Param, "layout": c.Struct, "lox": c.Lox})
			}
			if handle(c, vs[i]) {
				return
			}
		}
	}
	run.RequireClass("expected:accept", int64(n/5))
	run.RequireClass("expected:reject", int64(n/5))
	run.RequireClass("param:assignable", 5)
}
