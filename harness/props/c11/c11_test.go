// C11 — lexing always reaches EOF and accounts for every character.
package c11

import (
	"fmt"
	"testing"

	"github.com/dcaiafa/lox/verifharness/lib/ev"
	"github.com/dcaiafa/lox/verifharness/lib/lbatch"
	"github.com/dcaiafa/lox/verifharness/lib/lexcheck"
	"github.com/dcaiafa/lox/verifharness/lib/lexgen"
	"github.com/dcaiafa/lox/verifharness/lib/lexm"
	"github.com/dcaiafa/lox/verifharness/lib/loxb"
	"github.com/dcaiafa/lox/verifharness/lib/shrink"
	"pgregory.net/rapid"
)

type Case struct {
	S      *lexm.Spec
	Inputs [][]byte
	Lox    string `json:",omitempty"`
	Detail string `json:",omitempty"`
}

type seg struct {
	kind   string // tok discard error
	lo, hi int
}

// account replays the recorded conversation between simplelexer and the state
// machine over the input bytes and checks the invariants.
func account(in []byte, r lbatch.Result) (string, bool) {
	if r.Bound != "" {
		return fmt.Sprintf("EOF not reached within the step bounds (%s after %d ReadToken and %d PushRune calls for %d input bytes)", r.Bound, r.Reads, r.Pushes, len(in)), false
	}
	if r.Panic != "" {
		return "panic: " + r.Panic, false
	}
	off, start := 0, 0
	var segs []seg
	accumSeen, accumThenOut := false, false
	h := r.History
	skipping := false
	for i := 0; i < len(h); i++ {
		c, n := lexm.DecodeRune(in, off)
		if int32(c) != h[i].R {
			return fmt.Sprintf("history step %d: state machine was given rune %d, input has %d at offset %d", i, h[i].R, c, off), false
		}
		_ = skipping
		switch h[i].Ret {
		case 0: // consume
			if c == -1 {
				return "state machine asked to consume past the end of input", false
			}
			off += n
		case 1: // accept
			segs = append(segs, seg{"tok", start, off})
			start = off
			if accumSeen {
				accumThenOut = true
			}
			accumSeen = false
		case 2: // discard
			segs = append(segs, seg{"discard", start, off})
			start = off
			if accumSeen {
				accumThenOut = true
			}
			accumSeen = false
		case 3: // try again (accumulate)
			accumSeen = true
		case 4: // EOF
			if off != len(in) || c != -1 {
				return fmt.Sprintf("EOF reported at offset %d of %d", off, len(in)), false
			}
			if start != off {
				return fmt.Sprintf("EOF reported while bytes [%d:%d] %q are neither in a token, nor discarded, nor reported by an ERROR token", start, off, in[start:off]), false
			}
			if i != len(h)-1 {
				return "state machine used after EOF", false
			}
		default: // error: the driver skips to the character after the next newline
			lo := start
			for {
				c, n := lexm.DecodeRune(in, off)
				if c == -1 {
					break
				}
				off += n
				if c == '\n' {
					break
				}
			}
			segs = append(segs, seg{"error", lo, off})
			start = off
			accumSeen = false
		}
	}
	if len(h) == 0 || h[len(h)-1].Ret != 4 {
		return "token stream ended without EOF", false
	}
	// the segments tile [0,len) by construction of the replay; check the tokens the driver returned against them
	k := 0
	for _, s := range segs {
		if s.kind == "discard" {
			continue
		}
		if k >= len(r.Toks) {
			return "driver returned fewer tokens than the state machine produced", false
		}
		t := r.Toks[k]
		k++
		switch s.kind {
		case "tok":
			if t.T < 2 || t.Lo != s.lo || t.Len != s.hi-s.lo || string(t.Str) != string(in[s.lo:s.hi]) {
				return fmt.Sprintf("token #%d is (%d,%d,%q), the accepted stretch is [%d:%d] %q", k-1, t.Lo, t.Len, t.Str, s.lo, s.hi, in[s.lo:s.hi]), false
			}
		case "error":
			if t.T != 1 || t.Lo != s.lo {
				return fmt.Sprintf("ERROR token #%d at %d, the failed attempt started at %d", k-1, t.Lo, s.lo), false
			}
		}
	}
	if k != len(r.Toks)-1 || r.Toks[len(r.Toks)-1].T != 0 {
		return "driver's token list does not end with exactly one EOF", false
	}
	return "", accumThenOut
}

type verdict struct {
	has    bool
	bad    []byte
	detail string
}

func eval(run *ev.Run, cases []*Case, count bool) ([]verdict, error) {
	lc := make([]*lbatch.Case, len(cases))
	for i, c := range cases {
		c.Lox = c.S.Lox()
		lc[i] = &lbatch.Case{Files: map[string]string{"g.lox": c.Lox}, Inputs: c.Inputs}
	}
	outs, err := lbatch.Run(lc, true, true)
	vs := make([]verdict, len(cases))
	if ge, ok := err.(*lbatch.GenCodeError); ok {
		vs[ge.CaseIndex] = verdict{has: true, detail: "lox succeeded but the generated code does not compile: " + ge.Output}
		return vs, nil
	}
	if err != nil {
		return nil, err
	}
	for i, c := range cases {
		o := outs[i]
		if !o.GenOK {
			// rejecting a specification is a legitimate outcome here, provided a diagnostic is printed
			if o.GenPanic != "" {
				continue // a panic is C12's subject
			}
			if o.GenDiag == "" {
				vs[i] = verdict{has: true, detail: "lox rejected the specification without any diagnostic"}
			}
			if count {
				run.Class("spec-rejected-with-diagnostic")
			}
			continue
		}
		if count {
			run.Class("spec-accepted")
		}
		for k, in := range c.Inputs {
			d, accum := account(in, o.Results[k])
			if count {
				run.Eval(1)
				endsInside := false
				h := o.Results[k].History
				for _, p := range h {
					if p.Ret < 0 {
						endsInside = true
					}
				}
				if accum {
					run.Class("accumulate-then-emit/discard")
				}
				if endsInside {
					run.Class("input-with-lexical-error")
				}
				if accum || endsInside {
					run.Nontrivial(c.Lox + "|" + string(in))
				}
			}
			if d != "" {
				vs[i] = verdict{has: true, bad: in, detail: fmt.Sprintf("input %q: %s", in, d)}
				break
			}
		}
	}
	return vs, nil
}

func shrinkCase(run *ev.Run, c *Case) *Case {
	cands := func(c *Case) []*Case {
		var out []*Case
		in := c.Inputs[0]
		for size := len(in) / 2; size >= 1; size /= 2 {
			for lo := 0; lo+size <= len(in); lo += size {
				n := append(append([]byte(nil), in[:lo]...), in[lo+size:]...)
				out = append(out, &Case{S: c.S, Inputs: [][]byte{n}})
			}
		}
		for _, s := range lexcheck.SpecReductions(c.S) {
			out = append(out, &Case{S: s, Inputs: c.Inputs})
		}
		return out
	}
	failing := func(cs []*Case) []bool {
		res := make([]bool, len(cs))
		var keep []*Case
		var idx []int
		for i, c := range cs {
			if lexcheck.InDomain(c.S, true) {
				keep = append(keep, c)
				idx = append(idx, i)
			}
		}
		if len(keep) == 0 {
			return res
		}
		vs, err := eval(run, keep, false)
		if err != nil {
			return res
		}
		for k, v := range vs {
			res[idx[k]] = v.has && v.bad != nil
		}
		return res
	}
	return shrink.Greedy(c, cands, failing, 16)
}

func TestC11(t *testing.T) {
	run := ev.Start("C11")
	defer run.Finish(t)
	run.Rule = "random lexer specifications as for C02/C07 but without the precondition: rules may match the empty string, fragments may accumulate in any mode, modes may be left open; inputs as for C02 plus inputs cut in the middle of a construct, inputs made only of fragment text and invalid UTF-8; " +
		"oracle = invariants over the recorded history (every PushRune argument and result, captured by a proxy between the real simplelexer and the compiled state machine, replayed over the input bytes): either lox rejects the specification with a diagnostic, or EOF is reached within |input|+2 ReadToken and 4|input|+16 PushRune calls, EOF is reported only at the end of input with no pending bytes, and the returned tokens are exactly the accepted stretches / failed attempts (offset, length, text), so that tokens, discarded stretches and ERROR stretches (up to the driver's resync point after the next newline) tile the input; " +
		"non-trivial = input with an accumulate step later emitted/discarded, or with a lexical error; distinct by (spec text, input)"
	run.Assumptions = []string{"simplelexer's documented resync policy (skip to the character after the next newline) defines the ERROR stretch", "step bounds instead of wall-clock limits decide termination"}
	report := func(c *Case, detail string) {
		c.Detail = detail
		run.Violation(detail, c)
	}
	one := func(c *Case) {
		vs, err := eval(run, []*Case{c}, true)
		if err != nil {
			run.HarnessError("%v", err)
		}
		if vs[0].has {
			report(c, vs[0].detail)
		}
	}
	if run.Replay != "" {
		var c Case
		if err := ev.LoadReplay(run.Replay, &c); err != nil {
			run.HarnessError("replay: %v", err)
		}
		one(&c)
		return
	}
	for _, f := range run.CanonFiles() {
		var c Case
		if err := ev.LoadReplay(f, &c); err != nil {
			run.HarnessError("canon %s: %v", f, err)
		}
		run.Class("replay-tier")
		one(&c)
	}
	if run.Violations() > 0 {
		return
	}
	n := run.N(320, 5000)
	const batch = 80
	for done := 0; done < n; done += batch {
		var cases []*Case
		want := min(batch, n-done)
		fc := run.Check(fmt.Sprintf("collect-%d", done), want, 1, func(rt *rapid.T, fail ev.FailFunc) {
			o := lexgen.Opts{MaxModes: 2, ModeActs: true, Frags: true, Macros: true, ShuffleAct: true}
			o.Nullable = rapid.IntRange(0, 3).Draw(rt, "nullable") == 0
			// the accounting invariants do not depend on which match a non-greedy rule picks
			o.NonGreedy = rapid.IntRange(0, 2).Draw(rt, "nongreedy") == 0
			if o.NonGreedy && rapid.Bool().Draw(rt, "ng+nullable") {
				o.Nullable = true
			}
			s := lexgen.GenSpec(rt, o)
			cases = append(cases, &Case{S: s, Inputs: lexgen.Texts(rt, s, 40)})
		})
		if fc != nil {
			run.HarnessError("collect failed: %s\n%s", fc.Msg, fc.Log)
		}
		vs, err := eval(run, cases, true)
		if err != nil {
			run.HarnessError("%v", err)
		}
		for i, c := range cases {
			run.Class("specs")
			if i < 2 && len(c.Inputs) > 0 {
				run.Sample("case", map[string]any{"lox": c.Lox, "inputs": len(c.Inputs), "first": string(c.Inputs[0])})
			}
			if !vs[i].has {
				continue
			}
			fc := &Case{S: c.S, Inputs: c.Inputs, Lox: c.Lox}
			detail := vs[i].detail
			if vs[i].bad != nil {
				fc.Inputs = [][]byte{vs[i].bad}
				fc = shrinkCase(run, fc)
				if v2, err := eval(run, []*Case{fc}, false); err == nil && v2[0].has {
					detail = v2[0].detail
				}
			}
			report(fc, detail)
			return
		}
	}
	run.RequireClass("accumulate-then-emit/discard", 150)
	run.RequireClass("input-with-lexical-error", 1000)
	_ = loxb.Front1
}
