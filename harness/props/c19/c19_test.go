// C19 — token constants: one per terminal, EOF=0, ERROR=1, same numbers in all tables.
package c19

import (
	"fmt"
	"math"
	"sort"
	"strings"
	"testing"

	"github.com/dcaiafa/lox/verifharness/lib/ev"
	"github.com/dcaiafa/lox/verifharness/lib/forge"
	"github.com/dcaiafa/lox/verifharness/lib/lbatch"
	"github.com/dcaiafa/lox/verifharness/lib/tabdec"
	"pgregory.net/rapid"
)

// Decl is one declaration in text order.
type Decl struct {
	Kind  string // token frag external macro
	Name  string // token name / external names joined by space
	Lit   string // unique literal spelling (token, frag)
	Emit  string // frag: token emitted
	Mode  string // "" default
	File  int
	Extra string // mode action text
	NG    bool   `json:",omitempty"` // token: written NAME = 'lit' .*? '!' (its unique text is lit + "!"); several such rules of a mode end in look-alike states
	Use   string `json:",omitempty"` // token: a macro the rule ends with (NAME = 'lit' USE*), declared before or AFTER this rule
}

type Case struct {
	NFiles int
	Decls  []Decl   // in the order they are written within their file/mode
	Modes  []string // named modes, each lives in one file, at a position among that file's default-mode declarations
	ModeAt map[string]int
	Parser []string // tokens referenced by the parser (alternatives of the start rule)
	PFile  int
	// Resect: declaration indices before which the "@lexer" header is written again (several lexer
	// sections in one file); ParserAt: declaration index before which the parser section of PFile
	// stands, followed by a new "@lexer" header (0 = parser section at the end of the file)
	Resect   []int `json:",omitempty"`
	ParserAt int   `json:",omitempty"`
	Files  map[string]string `json:",omitempty"`
	Detail string            `json:",omitempty"`
}

func ri(t *rapid.T, lo, hi int, l string) int { return rapid.IntRange(lo, hi).Draw(t, l) }

func tokName(i int) string {
	// valid names of varied shapes: letters, digits, single underscores
	base := []string{"A", "B", "KW", "T9", "X_Y", "ID", "NUM2", "Z"}[i%8]
	return fmt.Sprintf("%s%d", base, i)
}

func genCase(rt *rapid.T) *Case {
	c := &Case{NFiles: ri(rt, 1, 3, "nfiles"), ModeAt: map[string]int{}}
	nModes := ri(rt, 0, 3, "nmodes")
	for i := 0; i < nModes; i++ {
		c.Modes = append(c.Modes, fmt.Sprintf("Md%c", 'a'+rune(i)))
	}
	n := ri(rt, 2, 14, "ndecl")
	if ri(rt, 0, 99, "many") < 4 {
		// more terminals than fit into a byte
		n = ri(rt, 240, 330, "ndecl2")
	}
	var toks []string
	seq := 0
	for i := 0; i < n; i++ {
		d := Decl{File: ri(rt, 0, c.NFiles-1, "file")}
		if len(c.Modes) > 0 && ri(rt, 0, 2, "inmode") == 0 {
			d.Mode = c.Modes[ri(rt, 0, len(c.Modes)-1, "mode")]
		}
		switch k := ri(rt, 0, 9, "kind"); {
		case k <= 5:
			d.Kind, d.Name = "token", tokName(seq)
			d.NG = ri(rt, 0, 3, "ng") == 0
			toks = append(toks, d.Name)
		case k <= 7:
			d.Kind = "frag"
		default:
			d.Kind = "external"
			var names []string
			for j, m := 0, ri(rt, 1, 3, "next"); j < m; j++ {
				seq++
				names = append(names, "EXT_"+tokName(seq))
			}
			d.Name = strings.Join(names, " ")
			d.Mode = "" // @external is a lexer-level statement; keep it outside modes half of the time
		}
		d.Lit = fmt.Sprintf("<%d>", seq)
		seq++
		c.Decls = append(c.Decls, d)
	}
	if len(toks) == 0 {
		c.Decls = append(c.Decls, Decl{Kind: "token", Name: tokName(seq), Lit: fmt.Sprintf("<%d>", seq)})
		toks = append(toks, tokName(seq))
	}
	if len(c.Decls) <= 40 && ri(rt, 0, 1, "macros") == 0 {
		// macros at any place among the declarations of the default mode, used by tokens declared
		// before or after them (the rules that follow a late macro are part of the same mode)
		var ms []string
		for k, nm := 0, ri(rt, 1, 2, "nmacro"); k < nm; k++ {
			at := ri(rt, 0, len(c.Decls), "macroat")
			name := fmt.Sprintf("MC%d", k)
			d := Decl{Kind: "macro", Name: name, Lit: "~", File: ri(rt, 0, c.NFiles-1, "macrofile")}
			c.Decls = append(c.Decls[:at], append([]Decl{d}, c.Decls[at:]...)...)
			ms = append(ms, name)
		}
		for i := range c.Decls {
			if c.Decls[i].Kind == "token" && ri(rt, 0, 2, "usemacro") == 0 {
				c.Decls[i].Use = ms[ri(rt, 0, len(ms)-1, "which")]
			}
		}
	}
	// a mode lives in the file of its first declaration; declarations of a mode are moved to that file
	for _, m := range c.Modes {
		file := -1
		for i := range c.Decls {
			if c.Decls[i].Mode == m {
				if file < 0 {
					file = c.Decls[i].File
					c.ModeAt[m] = i
				}
				c.Decls[i].File = file
			}
		}
	}
	for i := range c.Decls {
		d := &c.Decls[i]
		if d.Kind == "frag" {
			switch ri(rt, 0, 2, "fk") {
			case 0:
				d.Emit = toks[ri(rt, 0, len(toks)-1, "emit")]
			case 1:
				d.Extra = "@discard"
			}
		}
	}
	// parser: a subset of tokens and @external names, possibly none of a mode
	all := append([]string(nil), toks...)
	for _, d := range c.Decls {
		if d.Kind == "external" {
			all = append(all, strings.Fields(d.Name)...)
		}
	}
	perm := rapid.Permutation(all).Draw(rt, "perm")
	c.Parser = perm[:ri(rt, 1, len(perm), "np")]
	c.PFile = ri(rt, 0, c.NFiles-1, "pfile")
	if len(c.Decls) <= 40 && ri(rt, 0, 2, "sections") == 0 {
		for i := range c.Decls {
			if i > 0 && ri(rt, 0, 3, "resect") == 0 {
				c.Resect = append(c.Resect, i)
			}
		}
		if ri(rt, 0, 1, "parsermid") == 0 {
			c.ParserAt = ri(rt, 1, len(c.Decls), "parserat")
		}
	}
	return c
}

// render writes the files and returns the expected terminal order.
func (c *Case) render() (files map[string]string, order []string) {
	files = map[string]string{}
	for f := 0; f < c.NFiles; f++ {
		var sb strings.Builder
		sb.WriteString("@lexer\n")
		done := map[string]bool{}
		parserDone := false
		for i, d := range c.Decls {
			if d.File != f {
				continue
			}
			line := func(d Decl) string {
				switch d.Kind {
				case "token":
					order = append(order, d.Name)
					if d.NG {
						return fmt.Sprintf("%s = '%s' .*? '!'", d.Name, d.Lit)
					}
					if d.Use != "" {
						return fmt.Sprintf("%s = '%s' %s*", d.Name, d.Lit, d.Use)
					}
					return fmt.Sprintf("%s = '%s'", d.Name, d.Lit)
				case "macro":
					return fmt.Sprintf("@macro %s = '%s'", d.Name, d.Lit)
				case "frag":
					s := fmt.Sprintf("@frag '%s'", d.Lit)
					if d.Emit != "" {
						s += " @emit(" + d.Emit + ")"
					}
					if d.Extra != "" {
						s += " " + d.Extra
					}
					return s
				default:
					order = append(order, strings.Fields(d.Name)...)
					return "@external " + d.Name
				}
			}
			if d.Mode != "" && done[d.Mode] {
				continue
			}
			if f == c.PFile && c.ParserAt > 0 && i == c.ParserAt && !parserDone {
				sb.WriteString("\n@parser\n@start s = " + strings.Join(c.Parser, "\n  | ") + "\n\n@lexer\n")
				parserDone = true
			}
			for _, r := range c.Resect {
				if r == i {
					sb.WriteString("\n@lexer\n")
				}
			}
			if d.Mode == "" {
				sb.WriteString(line(d) + "\n")
				continue
			}
			done[d.Mode] = true
			_ = i
			fmt.Fprintf(&sb, "@mode %s {\n", d.Mode)
			for _, d2 := range c.Decls {
				if d2.Mode == d.Mode {
					sb.WriteString("  " + line(d2) + "\n")
				}
			}
			sb.WriteString("}\n")
		}
		if f == c.PFile && !parserDone {
			sb.WriteString("\n@parser\n@start s = " + strings.Join(c.Parser, "\n  | ") + "\n")
		}
		files[fmt.Sprintf("f%d.lox", f)] = sb.String()
	}
	return
}

// userGo: import-free package with one action per alternative signature (all alternatives are a single Token).
const userGo = `package PKGNAME

type Token struct{}

type prs struct{ lox }

func (p *prs) on_s(t Token) int { return 0 }

func NewSM() interface {
	PushRune(rune) int
	Token() int
	Reset()
} {
	return new(_LexerStateMachine)
}

func TokName(t int) string { return _TokenToString(t) }
`

func check(c *Case, out map[string]string) string {
	_, order := c.render()
	want := append([]string{"EOF", "ERROR"}, order...)
	names, values, toString, err := tabdec.Consts(out["base.gen.go"])
	if err != nil {
		return "base.gen.go does not parse: " + err.Error()
	}
	// the generated file may define other constants later; token constants are the first block
	if len(names) < len(want) {
		return fmt.Sprintf("base.gen.go defines %d constants, expected %d (%v)", len(names), len(want), want)
	}
	for i, n := range want {
		if names[i] != n || values[n] != int64(i) {
			return fmt.Sprintf("constant #%d is %s = %d, expected %s = %d (declaration order: %v)", i, names[i], values[names[i]], n, i, want)
		}
	}
	if len(names) != len(want) {
		return fmt.Sprintf("base.gen.go defines extra constants %v", names[len(want):])
	}
	for i, n := range want {
		if toString[int64(i)] != n {
			return fmt.Sprintf("_TokenToString(%d) returns %q, expected %q", i, toString[int64(i)], n)
		}
	}
	if len(toString) != len(want)+1 || toString[math.MinInt64] != "???" {
		return fmt.Sprintf("_TokenToString has %d cases and default %q; expected %d cases and \"???\"", len(toString)-1, toString[math.MinInt64], len(want))
	}
	// lexer tables: the unique string of every token / emitting fragment yields the token's constant
	arrs, err := tabdec.IntArrays(out["lexer.gen.go"])
	if err != nil {
		return "lexer.gen.go does not parse: " + err.Error()
	}
	modeNames := []string{"$default"}
	modeNames = append(modeNames, usedModes(c)...)
	sort.Strings(modeNames)
	modeIdx := map[string]int{}
	for i, n := range modeNames {
		modeIdx[n] = i
	}
	tabs := map[string]*tabdec.LexMode{}
	for n, i := range modeIdx {
		arr, ok := arrs[fmt.Sprintf("_lexerMode%d", i)]
		if !ok {
			return fmt.Sprintf("no _lexerMode%d for mode %s", i, n)
		}
		m, err := tabdec.DecodeLexMode(arr)
		if err != nil {
			return fmt.Sprintf("mode %s: %v", n, err)
		}
		tabs[n] = m
	}
	for _, d := range c.Decls {
		if d.Kind == "external" || d.Kind == "macro" {
			continue
		}
		mn := d.Mode
		if mn == "" {
			mn = "$default"
		}
		m := tabs[mn]
		st := 0
		ok := true
		text := d.Lit
		if d.NG {
			text += "!"
		}
		for _, ch := range text {
			n, has := m.States[st].Next(ch)
			if !has {
				ok = false
				break
			}
			st = n
		}
		if !ok {
			return fmt.Sprintf("mode %s: table does not accept %q", mn, d.Lit)
		}
		var acc *tabdec.LexAct
		for i := range m.States[st].Acts {
			if m.States[st].Acts[i].Type == 3 {
				acc = &m.States[st].Acts[i]
			}
		}
		wantTok := d.Name
		if d.Kind == "frag" {
			wantTok = d.Emit
		}
		switch {
		case wantTok == "" && acc != nil:
			return fmt.Sprintf("mode %s: %q of a non-emitting fragment emits %d", mn, d.Lit, acc.Param)
		case wantTok != "" && acc == nil:
			return fmt.Sprintf("mode %s: %q does not emit anything, expected %s", mn, d.Lit, wantTok)
		case wantTok != "" && int64(acc.Param) != values[wantTok]:
			return fmt.Sprintf("mode %s: %q emits %d, but the constant %s is %d", mn, d.Lit, acc.Param, wantTok, values[wantTok])
		}
	}
	// parser tables: s = T1 | ... | Tk  => state 0 shifts exactly on the constants of T1..Tk
	parrs, err := tabdec.IntArrays(out["parser.gen.go"])
	if err != nil {
		return "parser.gen.go does not parse: " + err.Error()
	}
	pt, err := tabdec.DecodeParser(parrs)
	if err != nil {
		return "parser tables malformed: " + err.Error()
	}
	wantKeys := map[int64]bool{}
	for _, t := range c.Parser {
		wantKeys[values[t]] = true
	}
	gotKeys := map[int64]bool{}
	for k, a := range pt.Actions[0] {
		gotKeys[k] = true
		if a < 0 || a == tabdec.Accept {
			return fmt.Sprintf("state 0 has a non-shift action on %d", k)
		}
		// the target state reduces on EOF (constant 0) only
		row := pt.Actions[a]
		if len(row) != 1 {
			return fmt.Sprintf("state %d should have exactly one action (reduce on EOF), has %v", a, row)
		}
		if act, ok := row[0]; !ok || act >= 0 {
			return fmt.Sprintf("state %d: expected a reduce keyed by EOF = 0, row is %v", a, row)
		}
	}
	if fmt.Sprint(keys(gotKeys)) != fmt.Sprint(keys(wantKeys)) {
		return fmt.Sprintf("state 0 shifts on %v, the parser's tokens %v have constants %v", keys(gotKeys), c.Parser, keys(wantKeys))
	}
	return ""
}

func keys(m map[int64]bool) []int64 {
	var ks []int64
	for k := range m {
		ks = append(ks, k)
	}
	sort.Slice(ks, func(i, j int) bool { return ks[i] < ks[j] })
	return ks
}

func usedModes(c *Case) []string {
	seen := map[string]bool{}
	var out []string
	for _, d := range c.Decls {
		if d.Mode != "" && !seen[d.Mode] {
			seen[d.Mode] = true
			out = append(out, d.Mode)
		}
	}
	return out
}

func nontrivial(c *Case) bool {
	inMode, extBefore, emit := false, false, false
	sawExt := false
	for _, d := range c.Decls {
		switch d.Kind {
		case "external":
			sawExt = true
		case "token":
			if sawExt {
				extBefore = true
			}
			if d.Mode != "" {
				inMode = true
			}
		case "frag":
			if d.Emit != "" {
				emit = true
			}
		}
	}
	return inMode && extBefore && emit && c.NFiles >= 2
}

func evalBatch(run *ev.Run, cases []*Case, count bool) ([]string, error) {
	var files []map[string]string
	for _, c := range cases {
		fs, _ := c.render()
		c.Files = fs
		m := map[string]string{"user.go": userGo}
		for n, t := range fs {
			m[n] = t
		}
		files = append(files, m)
	}
	b, err := forge.GenerateOnly(files, true, false)
	if err != nil {
		return nil, err
	}
	defer b.Close()
	ds := make([]string, len(cases))
	for i, c := range cases {
		p := b.Pkgs[i]
		if count {
			run.Eval(1)
			if nontrivial(c) {
				run.Nontrivial(fmt.Sprint(c.Files))
			}
		}
		if !p.Gen.OK {
			ds[i] = fmt.Sprintf("lox rejects a well-formed specification: %s%v", p.Gen.Diag, p.Gen.Panic)
			continue
		}
		ds[i] = check(c, p.Out)
	}
	return ds, nil
}

// compiled sample: _TokenToString called for every value in [-1, n+1]
func evalCompiled(run *ev.Run, cases []*Case) ([]string, error) {
	var lc []*lbatch.Case
	for _, c := range cases {
		fs, _ := c.render()
		files := map[string]string{"user.go": userGo}
		for n, t := range fs {
			files[n] = t
		}
		lc = append(lc, &lbatch.Case{Files: files, Inputs: [][]byte{}})
	}
	outs, err := lbatch.Run(lc, true, false)
	if err != nil {
		if ge, ok := err.(*lbatch.GenCodeError); ok {
			ds := make([]string, len(cases))
			ds[ge.CaseIndex] = "generated code does not compile: " + ge.Output
			return ds, nil
		}
		return nil, err
	}
	ds := make([]string, len(cases))
	for i, c := range cases {
		if !outs[i].GenOK {
			ds[i] = "lox rejects a well-formed specification: " + outs[i].GenDiag
			continue
		}
		_, order := c.render()
		want := append([]string{"EOF", "ERROR"}, order...)
		for v := -1; v <= len(want)+1; v++ {
			exp := "???"
			if v >= 0 && v < len(want) {
				exp = want[v]
			}
			run.Eval(1)
			if outs[i].Names[v] != exp {
				ds[i] = fmt.Sprintf("compiled _TokenToString(%d) = %q, expected %q", v, outs[i].Names[v], exp)
				break
			}
		}
	}
	return ds, nil
}

func TestC19(t *testing.T) {
	run := ev.Start("C19")
	defer run.Finish(t)
	run.Rule = "specifications of 1-3 files (read in file-name order) with 2-14 declarations: tokens (names of varied legal shapes), fragments (some with @emit of any token), @external lines with 1-3 names, spread over the default mode and 0-3 named modes placed between other declarations; every token/fragment has a unique literal spelling; a quarter of the tokens are written with a non-greedy repetition (NAME = 'lit' .*? '!'), so that several rules of a mode end in look-alike non-greedy accepting states; half of the smaller specifications declare 1-2 macros at any place (any file), used by tokens declared before or after them; the parser (in any file) uses a random subset of the tokens and @external names as alternatives of the start rule; " +
		"oracle: constants of base.gen.go (evaluated with go/types) are exactly EOF=0, ERROR=1 and the declared names numbered 2.. in text order; the _TokenToString switch maps each to its name and everything else to \"???\" (a sample is compiled and called for every value in [-1,n+1]); the decoded lexer table of the declaring mode accepts each unique spelling with the constant of its token / @emit target; the decoded _actions row of state 0 is keyed by exactly the constants of the parser's tokens and the follow-up states reduce on key 0 (EOF); " +
		"non-trivial = spec with a token inside a mode, an @external before a token, an @emit and >=2 files; distinct by file texts"
	run.Assumptions = []string{"files are processed in file-name order (filepath.Glob)", "the parser may refer to lexer tokens and to @external names alike"}
	report := func(c *Case, d string) {
		c.Detail = d
		run.Violation(d, c)
	}
	one := func(c *Case) {
		ds, err := evalBatch(run, []*Case{c}, true)
		if err != nil {
			run.HarnessError("%v", err)
		}
		if ds[0] != "" {
			report(c, ds[0])
			return
		}
		ds, err = evalCompiled(run, []*Case{c})
		if err != nil {
			run.HarnessError("%v", err)
		}
		if ds[0] != "" {
			report(c, ds[0])
		}
	}
	if run.Replay != "" {
		var c Case
		if err := ev.LoadReplay(run.Replay, &c); err != nil {
			run.HarnessError("replay: %v", err)
		}
		one(&c)
		return
	}
	for _, f := range run.CanonFiles() {
		var c Case
		if err := ev.LoadReplay(f, &c); err != nil {
			run.HarnessError("canon %s: %v", f, err)
		}
		run.Class("replay-tier")
		one(&c)
	}
	if run.Violations() > 0 {
		return
	}
	n := run.N(2000, 30000)
	const batch = 500
	first := true
	for done := 0; done < n; done += batch {
		var cases []*Case
		want := min(batch, n-done)
		fc := run.Check(fmt.Sprintf("collect-%d", done), want, 1, func(rt *rapid.T, fail ev.FailFunc) {
			cases = append(cases, genCase(rt))
		})
		if fc != nil {
			run.HarnessError("collect failed: %s\n%s", fc.Msg, fc.Log)
		}
		ds, err := evalBatch(run, cases, true)
		if err != nil {
			run.HarnessError("%v", err)
		}
		for i, c := range cases {
			run.Class("specs")
			if c.NFiles >= 2 {
				run.Class("specs-with>=2-files")
			}
			if i < 2 {
				run.Sample("spec", c.Files)
			}
			if ds[i] != "" {
				report(c, ds[i])
				return
			}
		}
		if first || run.Thorough() {
			first = false
			sample := cases[:min(40, len(cases))]
			ds, err := evalCompiled(run, sample)
			if err != nil {
				run.HarnessError("%v", err)
			}
			for i, c := range sample {
				run.Class("compiled-sample")
				if ds[i] != "" {
					report(c, ds[i])
					return
				}
			}
		}
	}
}
