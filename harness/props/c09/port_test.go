package c09

import (
	"github.com/dcaiafa/lox/internal/parsergen/lr1"
	"github.com/dcaiafa/lox/verifharness/lib/cfgm"
	"github.com/dcaiafa/lox/verifharness/lib/loxb"
)

// recoverPort is a line-by-line port of the generated parse()/_recover() (as of
// fix 3ebfc56: reductions simulated on a virtual stack), driven by lox's in-process table.
// It is NOT an oracle (that would compare the implementation with a copy of
// itself). Its only use is to attribute an already detected blame failure to
// the listed known finding "bottom-up delivery order": the port says in which
// order errors were DETECTED (injected) and in which order they are DELIVERED
// to actions; the finding's signature is "detection blames the right token,
// only the delivery order (bottom-up) differs, and the runtime delivered
// exactly what the port predicts".
type portResult struct {
	ok        bool
	injected  []int // token index carried by each Error value, in the order the values are created (detection order)
	delivered []int // token index of each Error handed to a user action, in delivery order
	aborted   bool  // step bound hit or unsupported construct
}

type portEnt struct {
	st     *lr1.ItemSet
	errTok int  // token carried when the entry is an Error symbol
	isErr  bool // Sym is an Error
}

func recoverPort(lx *loxb.Lox, p *cfgm.Plain, w []int) (res portResult) {
	t := lx.T
	terms := map[string]*lr1.Terminal{}
	for _, tm := range lx.G.Terminals {
		terms[tm.Name] = tm
	}
	termOf := func(id int) *lr1.Terminal {
		if id < 0 || id >= len(p.Names) {
			return nil
		}
		return terms[p.Names[id]]
	}
	errT := lx.G.ErrorTerminal
	find := func(st *lr1.ItemSet, term *lr1.Terminal) (*lr1.Action, bool) {
		if term == nil {
			return nil, false
		}
		acts := t.Actions(st).Get(term)
		if acts.Len() != 1 {
			return nil, false
		}
		return acts.Get(0), true
	}
	stack := []portEnt{{st: t.States[0]}}
	pos := 0
	// lookahead: la = terminal id (0 EOF, 1 ERROR), laTok = token index, laIsErr/laErrTok when lasym is an Error
	var la, laTok, laErrTok int
	var laIsErr bool
	qla := -1
	var qlaTok int
	stalled := false
	readToken := func() {
		if qla != -1 {
			la, laTok, laIsErr = qla, qlaTok, false
			qla = -1
			return
		}
		if pos < len(w) {
			la, laTok = w[pos], pos
			pos++
		} else {
			la, laTok = 0, len(w)
		}
		laIsErr = false
		if la == 1 {
			laIsErr, laErrTok = true, laTok
			res.injected = append(res.injected, laTok)
		}
	}
	recover := func() bool {
		errTok := laTok
		if laIsErr {
			errTok = laErrTok
		} else {
			res.injected = append(res.injected, errTok) // _makeError: a new Error is created for the offending token
		}
		for la == 1 {
			readToken()
		}
		if stalled {
			if la == 0 {
				return false
			}
			readToken()
			for la == 1 {
				readToken()
			}
		}
		for {
			save := append([]portEnt(nil), stack...)
			found := errTok
			for len(stack) >= 1 {
				state := stack[len(stack)-1].st
				// the reductions made on ERROR before it can be shifted, on a virtual stack
				var sim []*lr1.ItemSet
				popped := 0
				for {
					a, ok := find(state, errT)
					if !ok {
						break
					}
					if a.Type == lr1.ActionReduce {
						for n := len(a.Prods[0].Terms); n > 0; n-- {
							if len(sim) > 0 {
								sim = sim[:len(sim)-1]
							} else {
								popped++
							}
						}
						if len(sim) > 0 {
							state = sim[len(sim)-1]
						} else if popped < len(stack) {
							state = stack[len(stack)-1-popped].st
						} else {
							break
						}
						nx := loxb.GotoOf(t, state, a.Prods[0].Rule)
						if nx == nil {
							break
						}
						state = nx
						sim = append(sim, state)
						continue
					}
					if a.Type != lr1.ActionShift {
						break
					}
					state = a.ShiftState
					if _, ok := find(state, termOf(la)); !ok {
						break
					}
					qla, qlaTok = la, laTok
					la, laIsErr, laErrTok = 1, true, found
					stalled = true
					return true
				}
				if len(stack) >= 2 {
					below := stack[len(stack)-2].st
					if a, ok := find(below, errT); ok && a.Type == lr1.ActionShift && a.ShiftState == stack[len(stack)-1].st {
						if stack[len(stack)-1].isErr {
							found = stack[len(stack)-1].errTok
						}
					}
				}
				stack = stack[:len(stack)-1]
			}
			if la == 0 {
				return false
			}
			stack = save
			readToken()
		}
	}
	readToken()
	for steps := 0; steps < 200000; steps++ {
		top := stack[len(stack)-1].st
		a, ok := find(top, termOf(la))
		if !ok {
			if !recover() {
				res.ok = false
				return
			}
			if res.aborted {
				return
			}
			continue
		}
		switch a.Type {
		case lr1.ActionAccept:
			res.ok = true
			return
		case lr1.ActionShift:
			if qla == -1 {
				stalled = false
			}
			e := portEnt{st: a.ShiftState}
			if laIsErr {
				e.isErr, e.errTok = true, laErrTok
			}
			stack = append(stack, e)
			readToken()
		case lr1.ActionReduce:
			pr := a.Prods[0]
			n := len(pr.Terms)
			for i, term := range pr.Terms {
				if term == lr1.Term(errT) {
					ent := stack[len(stack)-n+i]
					if ent.isErr {
						res.delivered = append(res.delivered, ent.errTok)
					}
				}
			}
			stack = stack[:len(stack)-n]
			next := loxb.GotoOf(t, stack[len(stack)-1].st, pr.Rule)
			if next == nil {
				res.aborted = true
				return
			}
			stack = append(stack, portEnt{st: next})
		}
	}
	res.aborted = true
	return
}

// bottomUpSignature: the runtime delivered exactly what the port predicts, the
// first DETECTED error carries the first offending token, and only the delivery
// order differs.
func bottomUpSignature(lx *loxb.Lox, p *cfgm.Plain, w []int, ok bool, errToks []int, fb int) bool {
	if lx == nil || !lx.OK || lx.T.HasConflicts {
		return false
	}
	pr := recoverPort(lx, p, w)
	if pr.aborted || pr.ok != ok || len(pr.delivered) != len(errToks) {
		return false
	}
	for i := range errToks {
		if errToks[i] != pr.delivered[i] {
			return false
		}
	}
	return len(pr.injected) > 0 && pr.injected[0] == fb
}
