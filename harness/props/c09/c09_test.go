// C09 — syntax errors: always terminate, never accept silently, blame the right token.
package c09

import (
	"fmt"
	"testing"

	"github.com/dcaiafa/lox/verifharness/lib/cfggen"
	"github.com/dcaiafa/lox/verifharness/lib/cfgm"
	"github.com/dcaiafa/lox/verifharness/lib/ev"
	"github.com/dcaiafa/lox/verifharness/lib/loxb"
	"github.com/dcaiafa/lox/verifharness/lib/pbatch"
	"github.com/dcaiafa/lox/verifharness/lib/pgo"
	"github.com/dcaiafa/lox/verifharness/lib/shrink"
	"pgregory.net/rapid"
	"regexp"
	"strconv"
	"strings"
)

type Case struct {
	G      *cfgm.G
	Inputs [][]int // terminal indices; 1 = lexer ERROR token
	Lox    string  `json:",omitempty"`
	Detail string  `json:",omitempty"`
}

const lexErr = 1
const noMatch = 1 << 20 // what a lexer ERROR token is for the oracle: matches nothing

func oracleInput(w []int) []int {
	o := make([]int, len(w))
	for i, x := range w {
		if x == lexErr {
			o[i] = noMatch
		} else {
			o[i] = x
		}
	}
	return o
}

func genCase(rt *rapid.T, run *ev.Run) *Case {
	for try := 0; try < 8; try++ {
		o := cfggen.Opts{Shapes: true, Err: true, ErrSugar: true, Sugar: rapid.IntRange(0, 9).Draw(rt, "sugar") < 3, Styles: true}
		if rapid.Bool().Draw(rt, "guarded") {
			o.Guarded = true
			o.MaxRul = 4
		}
		g := cfggen.GenG(rt, o)
		// make sure @error occurs: catch-all on the start rule, or a placed production
		if !cfggen.HasErr(g) || rapid.IntRange(0, 3).Draw(rt, "more") == 0 {
			ri := 0
			if rapid.IntRange(0, 2).Draw(rt, "where") != 0 {
				ri = rapid.IntRange(0, len(g.Rules)-1).Draw(rt, "eri")
			}
			tok := func(l string) cfgm.Term {
				return cfgm.Term{Kind: cfgm.KSym, Name: g.Toks[rapid.IntRange(0, len(g.Toks)-1).Draw(rt, l)], IsTok: true}
			}
			e := cfgm.Term{Kind: cfgm.KErr}
			var p cfgm.Prod
			anyRule := func(l string) cfgm.Term {
				return cfgm.Term{Kind: cfgm.KSym, Name: g.Rules[rapid.IntRange(0, len(g.Rules)-1).Draw(rt, l)].Name}
			}
			switch rapid.IntRange(0, 8).Draw(rt, "eshape") {
			case 8: // a nullable rule reached through a unit production, directly before @error: before ERROR can be
				// shifted the parser has to reduce an empty production AND a non-empty one
				u1, u2 := "eua", "eub"
				g.Rules = append(g.Rules,
					cfgm.Rule{Name: u1, Prods: []cfgm.Prod{{Terms: []cfgm.Term{{Kind: cfgm.KSym, Name: u2}}}}},
					cfgm.Rule{Name: u2, Prods: []cfgm.Prod{{}, {Terms: []cfgm.Term{tok("eut")}}}})
				p.Terms = []cfgm.Term{{Kind: cfgm.KSym, Name: u1}, e, tok("et1")}
				if rapid.Bool().Draw(rt, "eu-noend") {
					p.Terms = p.Terms[:2]
				}
			case 5: // a (possibly nullable) rule directly before @error: reductions have to happen before ERROR can be shifted
				p.Terms = []cfgm.Term{anyRule("er0"), e, tok("et1")}
			case 6:
				p.Terms = []cfgm.Term{anyRule("er0"), e}
			case 7:
				p.Terms = []cfgm.Term{tok("et0"), anyRule("er0"), anyRule("er1"), e, tok("et1")}
			case 0:
				p.Terms = []cfgm.Term{e}
			case 1:
				p.Terms = []cfgm.Term{e, tok("et")}
			case 2:
				p.Terms = []cfgm.Term{tok("et0"), e, tok("et1")}
			case 3:
				p.Terms = []cfgm.Term{tok("et0"), e}
			default:
				p.Terms = []cfgm.Term{tok("et0"), {Kind: cfgm.KSym, Name: g.Rules[ri].Name}, e, tok("et1")}
			}
			g.Rules[ri].Prods = append(g.Rules[ri].Prods, p)
		}
		// x*! drops elements from the result tree by the user's Discard() and @list does not deliver
		// its separators; facet 4 reads the consumed symbols off that tree, so this check uses
		// x* / x+ instead (C03 covers *! and @list).
		for ri := range g.Rules {
			for pi := range g.Rules[ri].Prods {
				for ti := range g.Rules[ri].Prods[pi].Terms {
					switch t := &g.Rules[ri].Prods[pi].Terms[ti]; t.Kind {
					case cfgm.KStarF:
						t.Kind = cfgm.KStar
					case cfgm.KList: // separators are consumed but not delivered
						t.Kind, t.Sep, t.SepTk = cfgm.KPlus, "", false
					case cfgm.KListOpt:
						t.Kind, t.Sep, t.SepTk = cfgm.KStar, "", false
					}
				}
			}
		}
		lx := loxb.Front1(g.Lox())
		if lx.Panic != nil || !lx.OK || lx.T.HasConflicts {
			run.Class("gen:rejected-or-conflicts")
			continue
		}
		p := cfgm.Desugar(g)
		c := &Case{G: g}
		seen := map[string]bool{}
		add := func(w []int) {
			if len(w) > 60 {
				return
			}
			k := fmt.Sprint(w)
			if !seen[k] {
				seen[k] = true
				c.Inputs = append(c.Inputs, w)
			}
		}
		// every string up to length L over terminals + lexer ERROR when that is small
		alpha := append([]int{lexErr}, seq(2, p.NT)...)
		L := 4
		if len(alpha) > 5 {
			L = 3
		}
		var rec func(prefix []int)
		rec = func(prefix []int) {
			add(append([]int(nil), prefix...))
			if len(prefix) == L {
				return
			}
			for _, a := range alpha {
				rec(append(prefix, a))
			}
		}
		if pow(len(alpha), L) <= 700 {
			rec(nil)
		}
		// sentences with 0-3 error bursts
		for k := 0; k < 40; k++ {
			w := cfggen.StripErr(cfggen.Sentence(rt, p, rapid.IntRange(2, 7).Draw(rt, "b")))
			for m, nm := 0, rapid.IntRange(0, 3).Draw(rt, "nm"); m < nm; m++ {
				if rapid.IntRange(0, 3).Draw(rt, "burst") == 0 {
					i := rapid.IntRange(0, len(w)).Draw(rt, "bi")
					n := rapid.IntRange(1, 3).Draw(rt, "bn")
					ins := make([]int, n)
					for j := range ins {
						ins[j] = lexErr
					}
					w = append(append(append([]int(nil), w[:i]...), ins...), w[i:]...)
				} else {
					w = cfggen.Mutate(rt, w, 1, p.NT)
				}
			}
			add(w)
		}
		// long random strings
		for k := 0; k < 4; k++ {
			n := rapid.IntRange(10, 60).Draw(rt, "ln")
			w := make([]int, n)
			for i := range w {
				w[i] = rapid.IntRange(1, p.NT-1).Draw(rt, "lt")
			}
			add(w)
		}
		return c
	}
	return nil
}

// lxOf: lox's in-process table for the case (used only by the known-finding signature).
func lxOf(c *Case) *loxb.Lox { return loxb.Front1(c.G.Lox()) }

const knownErrSugar = "C09-errsugar-blame"
const knownBottomUp = "C09-blame-bottom-up-order"

// deliveredLater: an Error carrying token fb was delivered, and every Error
// delivered before it carries a later token.
func deliveredLater(errToks []int, fb int) bool {
	for i, t := range errToks {
		if t == fb {
			return i > 0
		}
		if t < fb {
			return false
		}
	}
	return false
}

func hasErrSugar(g *cfgm.G) bool {
	for _, r := range g.Rules {
		for _, p := range r.Prods {
			for _, t := range p.Terms {
				if t.Name == "ERROR" && t.Kind != cfgm.KSym {
					return true
				}
			}
		}
	}
	return false
}

func seq(lo, hi int) []int {
	var o []int
	for i := lo; i < hi; i++ {
		o = append(o, i)
	}
	return o
}

func pow(a, b int) int {
	r := 1
	for i := 0; i < b; i++ {
		r *= a
	}
	return r
}

type verdict struct {
	bad    []int
	detail string
	facet  string
}

// judge applies the four facets to one result.
func judge(p *cfgm.Plain, w []int, r pgo.Result) (facet, detail string) {
	ow := oracleInput(w)
	if r.Panic != "" {
		return "terminate", fmt.Sprintf("parse() did not finish: %s after %d action calls and %d ReadToken calls", r.Panic, r.Steps, r.Reads)
	}
	inL := cfgm.Earley(p, ow)
	if inL {
		return "", "" // sentences are C01's subject
	}
	if r.OK && r.Errs == 0 {
		return "silent", "non-sentence accepted: parse() returned true and no Error was delivered to any action (tree " + r.Tree + ")"
	}
	if r.FirstErr != -2 {
		fb := cfgm.FirstBad(p, ow)
		if r.FirstErr != fb {
			return "blame", fmt.Sprintf("first delivered Error carries token #%d, but the input stops being a prefix of any sentence at token #%d", r.FirstErr, fb)
		}
	}
	if r.OK {
		// consumed symbols form a sentence of G', tokens in order, gaps only at Error leaves
		var sym []int
		pos := 0
		errSince := false
		for _, f := range r.Front {
			if f == -1 {
				sym = append(sym, 1)
				errSince = true
				continue
			}
			if f < pos || f >= len(w) {
				return "consumed", fmt.Sprintf("result tree uses token #%d out of order (frontier %v)", f, r.Front)
			}
			if f > pos && !errSince {
				return "consumed", fmt.Sprintf("tokens #%d..#%d vanished without an Error leaf in their place (frontier %v)", pos, f-1, r.Front)
			}
			if w[f] == lexErr {
				return "consumed", fmt.Sprintf("a lexer ERROR token (#%d) was consumed as an ordinary token", f)
			}
			sym = append(sym, w[f])
			pos = f + 1
			errSince = false
		}
		if pos < len(w) && !errSince {
			return "consumed", fmt.Sprintf("trailing tokens #%d.. vanished without an Error leaf (frontier %v)", pos, r.Front)
		}
		if !cfgm.Earley(p, sym) {
			return "consumed", fmt.Sprintf("parse() returned true but the consumed symbols [%s] are not a sentence (reading @error as a terminal)", p.Show(sym))
		}
	}
	return "", ""
}

func eval(run *ev.Run, cases []*Case, count bool) ([]verdict, error) {
	pc := make([]*pbatch.Case, len(cases))
	for i, c := range cases {
		pc[i] = &pbatch.Case{G: c.G, Inputs: c.Inputs}
		lim := make([]int, len(c.Inputs))
		for k, w := range c.Inputs {
			lim[k] = 1000 + 200*len(w)
		}
		pc[i].Limits = lim
	}
	outs, err := pbatch.Run(pc, true)
	vs := make([]verdict, len(cases))
	if ge, ok := err.(*pbatch.GenCodeError); ok {
		vs[ge.CaseIndex] = verdict{bad: []int{}, facet: "compile", detail: "lox succeeded but the generated parser does not compile: " + ge.Output}
		return vs, nil
	}
	if err != nil {
		return nil, err
	}
	// step-bound hits are re-run with a 100x bound before they are believed
	var recases []*pbatch.Case
	var reidx [][2]int
	for i, c := range cases {
		if !outs[i].GenOK {
			continue
		}
		for k := range c.Inputs {
			if pn := outs[i].Results[k].Panic; pn == "STEPBOUND" {
				recases = append(recases, &pbatch.Case{G: c.G, Inputs: [][]int{c.Inputs[k]}, Limits: []int{100 * (1000 + 200*len(c.Inputs[k]))}})
				reidx = append(reidx, [2]int{i, k})
				if len(recases) >= 40 {
					break
				}
			}
		}
	}
	if len(recases) > 0 {
		ro, err := pbatch.Run(recases, true)
		if err != nil {
			return nil, err
		}
		for j, ix := range reidx {
			if ro[j].GenOK {
				outs[ix[0]].Results[ix[1]] = ro[j].Results[0]
			}
		}
	}
	for i, c := range cases {
		c.Lox = pc[i].LoxText
		o := outs[i]
		if !o.GenOK {
			lx := loxb.Front1(c.Lox)
			if lx.OK && !lx.T.HasConflicts {
				vs[i] = verdict{bad: []int{}, facet: "generate", detail: "codegen.Generate rejects an accepted grammar whose action file types every @error term as Error: " + o.GenDiag + o.GenPanic}
			}
			continue
		}
		p := cfgm.Desugar(c.G)
		for k, w := range c.Inputs {
			r := o.Results[k]
			if r.Skipped {
				continue
			}
			if count {
				run.Eval(1)
				if r.Errs > 0 || (r.Panic == "" && !r.OK) {
					run.Class("recovery-entered-or-rejected")
				}
				if r.Errs > 0 {
					run.Nontrivial(c.Lox + "|" + fmt.Sprint(w))
					run.Class("error-delivered")
				}
				if r.OK && r.Errs > 0 {
					run.Class("recovered-and-accepted")
				}
			}
			if f, d := judge(p, w, r); f != "" {
				if f == "blame" && run.Known(knownBottomUp) && !hasErrSugar(c.G) &&
					(bottomUpSignature(lxOf(c), p, w, r.OK, r.ErrToks, cfgm.FirstBad(p, oracleInput(w))) ||
						treeOrderSignature(r, cfgm.FirstBad(p, oracleInput(w)))) {
					// listed finding: detection blames the right token, but Errors are delivered in bottom-up
					// action order (nested / right-recursive @error productions reduce first)
					run.KnownHit(knownBottomUp, "Error of the first offending token delivered after Errors of later tokens (bottom-up action order)")
					continue
				}
				if f == "blame" && hasErrSugar(c.G) && r.FirstErr > cfgm.FirstBad(p, oracleInput(w)) && run.Known(knownErrSugar) {
					// listed finding: an Error absorbed by a generated @error?/@error* helper value is
					// dropped unreported when a later recovery pops it; excluded by construction, counted
					run.KnownHit(knownErrSugar, "later token blamed after an Error held by an @error?/@error* helper was discarded")
					continue
				}
				vs[i] = verdict{bad: w, facet: f, detail: fmt.Sprintf("[%s] input [%s]: %s", f, p.Show(w), d)}
				break
			}
		}
	}
	return vs, nil
}

func shrinkCase(run *ev.Run, c *Case, facet string) *Case {
	cands := func(c *Case) []*Case {
		var out []*Case
		for _, w := range cfggen.InputReductions(c.Inputs[0]) {
			out = append(out, &Case{G: c.G, Inputs: [][]int{w}})
		}
		for _, g := range cfggen.Reductions(c.G) {
			out = append(out, &Case{G: g, Inputs: c.Inputs})
		}
		return out
	}
	failing := func(cs []*Case) []bool {
		res := make([]bool, len(cs))
		var keep []*Case
		var idx []int
		for i, c := range cs {
			lx := loxb.Front1(c.G.Lox())
			if lx.Panic != nil || !lx.OK || lx.T.HasConflicts {
				continue
			}
			ok := true
			for _, x := range c.Inputs[0] {
				if x < 1 || x >= 2+len(c.G.Toks) {
					ok = false
				}
			}
			if ok {
				keep = append(keep, c)
				idx = append(idx, i)
			}
		}
		if len(keep) == 0 {
			return res
		}
		vs, err := eval(run, keep, false)
		if err != nil {
			return res
		}
		for k, v := range vs {
			res[idx[k]] = v.bad != nil && v.facet == facet
		}
		return res
	}
	return shrink.Greedy(c, cands, failing, 14)
}

var errLeaf = regexp.MustCompile(`\bE(-?\d+)\b`)

// treeOrderSignature is the second form of the listed finding "bottom-up delivery order" (for
// parses that succeed, where the result tree is available): reading the result tree left to
// right, the FIRST Error carries the first offending token - detection and placement are right -
// and that very Error was delivered, only later than Errors of productions that were reduced
// before the one holding it. A wrong blame (no Error for the first offending token, or that
// Error not first in the tree) does not match.
func treeOrderSignature(r pgo.Result, fb int) bool {
	if !r.OK || r.Panic != "" {
		return false
	}
	m := errLeaf.FindStringSubmatch(r.Tree)
	if m == nil {
		return false
	}
	first, _ := strconv.Atoi(m[1])
	if first != fb {
		return false
	}
	for _, t := range r.ErrToks {
		if t == fb {
			return true
		}
	}
	return false
}

func TestC09(t *testing.T) {
	run := ev.Start("C09")
	defer run.Finish(t)
	run.Rule = "random conflict-free grammars with @error terms (production start/middle/end, catch-all on the start rule, recursive rules, merged-lookahead shape, occasionally @error? / @error*) x inputs: every string up to length 3-4 over tokens and the lexer ERROR token when that space is <=700, sentences with 0-3 edits or bursts of ERROR tokens, random strings up to 60 tokens; " +
		"oracle (Earley on G' = G with @error as a terminal the input cannot contain): (1) parse() ends within 1000+200*|w| action calls (re-run with 100x before reporting) and |w|+50 ReadToken calls, no panic; (2) non-sentence => false or >=1 Error delivered; (3) first delivered Error carries the token ending the shortest non-viable prefix; (4) on true, the frontier of the result tree is a sentence of G', its tokens are in input order and every gap sits at an Error leaf; " +
		"non-trivial = (grammar, input) on which at least one Error was delivered; distinct by (grammar text, input)"
	run.Assumptions = []string{"Earley recogniser / viable-prefix computation in lib/cfgm", "step bounds instead of wall-clock limits decide termination"}
	report := func(c *Case, detail string) {
		c.Detail = detail
		run.Violation(detail, c)
	}
	one := func(c *Case) {
		vs, err := eval(run, []*Case{c}, true)
		if err != nil {
			run.HarnessError("%v", err)
		}
		if vs[0].bad != nil {
			report(c, vs[0].detail)
		}
	}
	if run.Replay != "" {
		var c Case
		if err := ev.LoadReplay(run.Replay, &c); err != nil {
			run.HarnessError("replay: %v", err)
		}
		one(&c)
		return
	}
	for _, f := range run.CanonFiles() {
		var c Case
		if err := ev.LoadReplay(f, &c); err != nil {
			run.HarnessError("canon %s: %v", f, err)
		}
		run.Class("replay-tier")
		one(&c)
	}
	if run.Violations() > 0 {
		return
	}
	n := run.N(320, 5000)
	const batch = 80
	for done := 0; done < n; done += batch {
		var cases []*Case
		want := batch
		if n-done < want {
			want = n - done
		}
		fc := run.Check(fmt.Sprintf("collect-%d", done), want*6, 1, func(rt *rapid.T, fail ev.FailFunc) {
			if len(cases) >= want {
				return
			}
			if c := genCase(rt, run); c != nil {
				cases = append(cases, c)
			}
		})
		if fc != nil {
			run.HarnessError("collect failed: %s\n%s", fc.Msg, fc.Log)
		}
		vs, err := eval(run, cases, true)
		if err != nil {
			run.HarnessError("%v", err)
		}
		for i, c := range cases {
			run.Class("grammars")
			if i < 2 {
				run.Sample("case", map[string]any{"lox": c.Lox, "inputs": len(c.Inputs), "some": c.Inputs[len(c.Inputs)/2]})
			}
			if vs[i].bad == nil {
				continue
			}
			fc := &Case{G: c.G, Inputs: [][]int{vs[i].bad}, Lox: c.Lox}
			detail := vs[i].detail
			if !strings.Contains(detail, "TIMEOUT") {
				// (a parse that never returns costs a wall-clock guard per candidate: reported unshrunk)
				fc = shrinkCase(run, fc, vs[i].facet)
				if v2, err := eval(run, []*Case{fc}, false); err == nil && v2[0].bad != nil {
					detail = v2[0].detail
				}
			}
			report(fc, detail)
			return
		}
	}
	run.RequireClass("error-delivered", int64(n))
	run.RequireClass("recovered-and-accepted", int64(n/4))
}
