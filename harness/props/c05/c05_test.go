// C05 — @left/@right(n) give the documented operator grouping.
package c05

import (
	"fmt"
	"strings"
	"testing"

	"github.com/dcaiafa/lox/verifharness/lib/cfggen"
	"github.com/dcaiafa/lox/verifharness/lib/cfgm"
	"github.com/dcaiafa/lox/verifharness/lib/ev"
	"github.com/dcaiafa/lox/verifharness/lib/loxb"
	"github.com/dcaiafa/lox/verifharness/lib/pbatch"
	"github.com/dcaiafa/lox/verifharness/lib/pgo"
	"pgregory.net/rapid"
)

type Case struct {
	G      *cfgm.G
	Ops    map[string]cfggen.OpInfo
	Num    string
	LP, RP string
	Fn     string
	Twin   map[string]cfggen.OpInfo `json:",omitempty"` // second expression rule over the same operators (see cfggen.ExprSpec)
	TL, TR string                   `json:",omitempty"`
	Chains [][]int                  // terminal indices
	Lox    string                   `json:",omitempty"`
	Detail string                   `json:",omitempty"`
}

const knownRight = "C05-right-assoc"

// ---- reference: precedence climbing ----------------------------------------

type pc struct {
	c       *Case
	names   []string
	w       []int
	pos     int
	allLeft bool
	bad     bool
	twin    bool // inside TL ... TR: the twin rule's table applies
}

func (p *pc) op(name string) (cfggen.OpInfo, bool) {
	if p.twin {
		o, ok := p.c.Twin[name]
		return o, ok
	}
	o, ok := p.c.Ops[name]
	return o, ok
}

func (p *pc) peek() string {
	if p.pos < len(p.w) {
		return p.names[p.w[p.pos]]
	}
	return ""
}

func (p *pc) atom() string {
	switch t := p.peek(); {
	case t == p.c.Num:
		p.pos++
		return fmt.Sprintf("n%d", p.pos-1)
	case t == p.c.LP:
		p.pos++
		e := p.expr(0)
		if p.peek() != p.c.RP {
			p.bad = true
			return ""
		}
		p.pos++
		return "p(" + e + ")"
	case p.c.TL != "" && t == p.c.TL && !p.twin:
		p.pos++
		p.twin = true
		e := p.expr(0)
		p.twin = false
		if p.peek() != p.c.TR {
			p.bad = true
			return ""
		}
		p.pos++
		return "q(" + e + ")"
	case p.c.Fn != "" && t == p.c.Fn && !p.twin:
		p.pos++
		if p.peek() != p.c.LP {
			p.bad = true
			return ""
		}
		p.pos++
		e := p.expr(0)
		if p.peek() != p.c.RP {
			p.bad = true
			return ""
		}
		p.pos++
		return "f(" + e + ")"
	}
	p.bad = true
	return ""
}

func (p *pc) expr(min int) string {
	lhs := p.atom()
	for !p.bad {
		op, ok := p.op(p.peek())
		if !ok || op.Level < min {
			break
		}
		name := p.peek()
		at := p.pos
		p.pos++
		var rhs string
		if op.Right && !p.allLeft {
			rhs = p.expr(op.Level)
		} else {
			rhs = p.expr(op.Level + 1)
		}
		lhs = fmt.Sprintf("(%s %s#%d %s)", lhs, name, at, rhs)
	}
	return lhs
}

func climb(c *Case, names []string, w []int, allLeft bool) (string, bool) {
	p := &pc{c: c, names: names, w: w, allLeft: allLeft}
	e := p.expr(0)
	if p.bad || p.pos != len(w) {
		return "", false
	}
	return e, true
}

// render lox's tree in the same notation
func render(c *Case, n *loxb.LNode) string {
	if n.Rule == "" {
		return fmt.Sprintf("n%d", n.Tok)
	}
	switch {
	case len(n.Kids) == 1 && n.Kids[0].Rule != "":
		return render(c, n.Kids[0]) // s = e
	case len(n.Kids) == 1:
		return fmt.Sprintf("n%d", n.Kids[0].Tok)
	case len(n.Kids) == 3 && n.Kids[0].Rule != "":
		return fmt.Sprintf("(%s %s#%d %s)", render(c, n.Kids[0]), n.Kids[1].Sym, n.Kids[1].Tok, render(c, n.Kids[2]))
	case len(n.Kids) == 3 && c.TL != "" && n.Kids[0].Sym == c.TL:
		return "q(" + render(c, n.Kids[1]) + ")"
	case len(n.Kids) == 3:
		return "p(" + render(c, n.Kids[1]) + ")"
	case len(n.Kids) == 4:
		return "f(" + render(c, n.Kids[2]) + ")"
	}
	return "?"
}

// ---- generators ---------------------------------------------------------------

func genChain(rt *rapid.T, c *Case, idx map[string]int, depth int) []int {
	var opNames []string
	for _, t := range c.G.Toks {
		if _, ok := c.Ops[t]; ok {
			opNames = append(opNames, t)
		}
	}
	var atom func(d int) []int
	var expr func(d int) []int
	twin := false
	atom = func(d int) []int {
		k := rapid.IntRange(0, 9).Draw(rt, "atom")
		switch {
		case d > 0 && k == 0:
			return append(append([]int{idx[c.LP]}, expr(d-1)...), idx[c.RP])
		case d > 0 && k == 1 && c.Fn != "" && !twin:
			return append(append([]int{idx[c.Fn], idx[c.LP]}, expr(d-1)...), idx[c.RP])
		case d > 0 && (k == 2 || k == 3) && c.TL != "" && !twin:
			twin = true
			in := expr(d - 1)
			twin = false
			return append(append([]int{idx[c.TL]}, in...), idx[c.TR])
		}
		return []int{idx[c.Num]}
	}
	expr = func(d int) []int {
		out := atom(d)
		n := rapid.IntRange(0, 6).Draw(rt, "nops")
		if d == depth {
			n = rapid.IntRange(1, 7).Draw(rt, "nops0")
		}
		for i := 0; i < n; i++ {
			out = append(out, idx[opNames[rapid.IntRange(0, len(opNames)-1).Draw(rt, "op")]])
			out = append(out, atom(d)...)
		}
		return out
	}
	return expr(depth)
}

func genCase(rt *rapid.T, nChains int) *Case {
	es := cfggen.GenExpr(rt)
	c := &Case{G: es.G, Ops: es.Ops, Num: es.Num, LP: es.LP, RP: es.RP, Fn: es.Fn, Twin: es.Twin, TL: es.TL, TR: es.TR}
	idx := map[string]int{}
	for i, t := range c.G.Toks {
		idx[t] = i + 2
	}
	seen := map[string]bool{}
	for k := 0; k < nChains; k++ {
		w := genChain(rt, c, idx, 2)
		if len(w) > 40 || seen[fmt.Sprint(w)] {
			continue
		}
		seen[fmt.Sprint(w)] = true
		c.Chains = append(c.Chains, w)
	}
	// all chains of <=3 operators over a small table
	var ops []int
	for _, t := range c.G.Toks {
		if _, ok := c.Ops[t]; ok {
			ops = append(ops, idx[t])
		}
	}
	if len(ops) <= 4 {
		var rec func(w []int, n int)
		rec = func(w []int, n int) {
			if n > 0 && !seen[fmt.Sprint(w)] {
				seen[fmt.Sprint(w)] = true
				c.Chains = append(c.Chains, append([]int(nil), w...))
			}
			if n == 3 {
				return
			}
			for _, o := range ops {
				rec(append(append([]int(nil), w...), o, idx[c.Num]), n+1)
			}
		}
		rec([]int{idx[c.Num]}, 0)
	}
	return c
}

func nontrivial(c *Case, names []string, w []int) bool {
	// >=2 adjacent operators of equal level, or >=2 levels in the chain
	var lv []int
	for _, x := range w {
		if o, ok := c.Ops[names[x]]; ok {
			lv = append(lv, o.Level)
		}
	}
	levels := map[int]bool{}
	adj := false
	for i, l := range lv {
		levels[l] = true
		if i > 0 && lv[i-1] == l {
			adj = true
		}
	}
	return adj || len(levels) >= 2
}

// evalA: lox's table. Returns violation detail ("" = held) and known-finding hits.
func evalA(run *ev.Run, c *Case, count bool) (string, []int, int) {
	c.Lox = c.G.Lox()
	lx := loxb.Front1(c.Lox)
	if lx.Panic != nil {
		return fmt.Sprintf("lox panicked on an operator table: %v", lx.Panic), nil, 0
	}
	if !lx.OK {
		return "lox rejects a well-formed operator table: " + lx.Diag, nil, 0
	}
	if lx.T.HasConflicts {
		return "lox reports conflicts for an operator table whose binary alternatives all carry @left/@right", nil, 0
	}
	p := cfgm.Desugar(c.G)
	known := 0
	for _, w := range c.Chains {
		want, ok := climb(c, p.Names, w, false)
		if !ok {
			continue // generator produced a non-expression (cannot happen); skip
		}
		if count {
			run.Eval(1)
			if nontrivial(c, p.Names, w) {
				run.Nontrivial(c.Lox + "|" + fmt.Sprint(w))
			}
		}
		tree := loxb.TableParseTree(lx, p.Names, w)
		if tree == nil {
			return fmt.Sprintf("input [%s] is a well-formed expression but the table parse rejects it", p.Show(w)), w, known
		}
		got := render(c, tree)
		if got == want {
			continue
		}
		if alt, _ := climb(c, p.Names, w, true); alt == got && run.Known(knownRight) {
			known++
			continue
		}
		return fmt.Sprintf("input [%s] groups as %s, documented grouping is %s", p.Show(w), got, want), w, known
	}
	return "", nil, known
}

// evalC: compiled parsers; expected tree from the reference LALR(1) parser with
// the documented precedence rule (cross-checked against precedence climbing).
func evalC(run *ev.Run, cases []*Case) (details []string, bad [][]int, known int, err error) {
	pcs := make([]*pbatch.Case, len(cases))
	for i, c := range cases {
		pcs[i] = &pbatch.Case{G: c.G, Inputs: c.Chains}
	}
	outs, err := pbatch.Run(pcs, true)
	details = make([]string, len(cases))
	bad = make([][]int, len(cases))
	if ge, ok := err.(*pbatch.GenCodeError); ok {
		details[ge.CaseIndex] = "lox succeeded but the generated parser does not compile: " + ge.Output
		return details, bad, 0, nil
	}
	if err != nil {
		return nil, nil, 0, err
	}
	for i, c := range cases {
		c.Lox = pcs[i].LoxText
		if !outs[i].GenOK {
			details[i] = "codegen.Generate rejects a well-formed operator table: " + outs[i].GenDiag + outs[i].GenPanic
			continue
		}
		p := cfgm.Desugar(c.G)
		ref := cfgm.BuildRef(p, 3000)
		left := cfggen.CloneG(c.G)
		for ri := range left.Rules {
			for pi := range left.Rules[ri].Prods {
				left.Rules[ri].Prods[pi].Right = false
			}
		}
		pl := cfgm.Desugar(left)
		refL := cfgm.BuildRef(pl, 3000)
		if ref.TooBig || ref.Conflict || refL.TooBig || refL.Conflict {
			return nil, nil, 0, fmt.Errorf("reference construction failed on an operator table:\n%s", c.Lox)
		}
		for k, w := range c.Chains {
			tree := ref.ParseTree(w)
			if tree == nil {
				return nil, nil, 0, fmt.Errorf("reference parser rejects a generated expression")
			}
			if err := p.ValidateTree(tree, w); err != nil {
				return nil, nil, 0, err
			}
			ex := pgo.Expected(p, tree, w)
			r := outs[i].Results[k]
			if r.Skipped {
				continue
			}
			run.Eval(1)
			run.Class("layerC:chains")
			if r.OK && r.Errs == 0 && r.Panic == "" && r.Tree == ex.Tree {
				continue
			}
			if tl := refL.ParseTree(w); tl != nil && r.OK && r.Tree == pgo.Expected(pl, tl, w).Tree && run.Known(knownRight) {
				known++
				continue
			}
			details[i] = fmt.Sprintf("compiled parser: input [%s] gives ok=%v tree %s, documented grouping gives %s", p.Show(w), r.OK, r.Tree, ex.Tree)
			bad[i] = w
			break
		}
	}
	return details, bad, known, nil
}

func TestC05(t *testing.T) {
	run := ev.Start("C05")
	defer run.Finish(t)
	run.Rule = "operator tables: 1-4 levels (numbers not contiguous, production order shuffled), each @left or @right, 1-3 binary operators per level, atoms, parentheses, optional unqualified alternative F ( e ), optional separate start rule; inputs: random operator/operand chains with nesting plus every chain of <=3 operators for tables with <=4 operators; " +
		"oracle = independent precedence-climbing parser (layer A: lox's table interpreted; layer C: compiled parser against the reference LALR(1) tree with the documented rule); non-trivial = chain with two adjacent operators of one level or with two levels; distinct by (table text, chain)"
	run.Assumptions = []string{"precedence climbing: higher n binds tighter, @left groups left-to-right, @right right-to-left", "one associativity per level (mixed associativity on a level is undocumented and not generated)"}
	report := func(c *Case, detail string, w []int) {
		c.Detail = detail
		if w != nil {
			c.Chains = [][]int{w}
		}
		run.Violation(detail, c)
	}
	hit := func(n int) {
		for i := 0; i < n; i++ {
			run.KnownHit(knownRight, "chain grouped as if every @right were @left")
		}
	}
	one := func(c *Case) {
		d, w, k := evalA(run, c, true)
		hit(k)
		if d != "" {
			report(c, d, w)
			return
		}
		ds, bad, k2, err := evalC(run, []*Case{c})
		if err != nil {
			run.HarnessError("%v", err)
		}
		hit(k2)
		if ds[0] != "" {
			report(c, ds[0], bad[0])
		}
	}
	if run.Replay != "" {
		var c Case
		if err := ev.LoadReplay(run.Replay, &c); err != nil {
			run.HarnessError("replay: %v", err)
		}
		one(&c)
		return
	}
	for _, f := range run.CanonFiles() {
		var c Case
		if err := ev.LoadReplay(f, &c); err != nil {
			run.HarnessError("canon %s: %v", f, err)
		}
		run.Class("replay-tier")
		one(&c)
	}
	if run.Violations() > 0 {
		return
	}
	nA := run.N(3000, 60000)
	f := run.Check("layerA", nA, 8, func(rt *rapid.T, fail ev.FailFunc) {
		c := genCase(rt, 30)
		d, w, k := evalA(run, c, true)
		hit(k)
		run.Class("layerA:tables")
		for _, o := range c.Ops {
			if o.Right {
				run.Class("layerA:tables-with-@right")
				break
			}
		}
		run.Sample("table", map[string]any{"lox": c.Lox, "chains": len(c.Chains)})
		if d != "" {
			fc := *c
			if w != nil {
				fc.Chains = [][]int{w}
			}
			fail(&fc, "%s", d)
		}
	})
	if f != nil {
		c, _ := f.Case.(*Case)
		if c == nil {
			run.HarnessError("rapid failure without a case: %s\n%s", f.Msg, f.Log)
		}
		report(c, f.Msg, nil)
		return
	}
	nC := run.N(60, 800)
	const batch = 60
	for done := 0; done < nC; done += batch {
		var cases []*Case
		want := min(batch, nC-done)
		fc := run.Check(fmt.Sprintf("layerC-collect-%d", done), want, 1, func(rt *rapid.T, fail ev.FailFunc) {
			cases = append(cases, genCase(rt, 40))
		})
		if fc != nil {
			run.HarnessError("collect failed: %s\n%s", fc.Msg, fc.Log)
		}
		ds, bad, k, err := evalC(run, cases)
		if err != nil {
			run.HarnessError("%v", err)
		}
		hit(k)
		for i, c := range cases {
			if ds[i] != "" {
				report(c, ds[i], bad[i])
				return
			}
		}
	}
	run.RequireClass("layerA:tables-with-@right", int64(nA/4))
	_ = strings.Join
}
