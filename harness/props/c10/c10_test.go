// C10 — emitted tables are faithful to the automata they encode.
package c10

import (
	"encoding/json"
	"fmt"
	"sort"
	"strings"
	"testing"
	"time"

	"github.com/dcaiafa/lox/internal/parsergen/lr1"
	"github.com/dcaiafa/lox/verifharness/lib/cfggen"
	"github.com/dcaiafa/lox/verifharness/lib/cfgm"
	"github.com/dcaiafa/lox/verifharness/lib/ev"
	"github.com/dcaiafa/lox/verifharness/lib/forge"
	"github.com/dcaiafa/lox/verifharness/lib/lexgen"
	"github.com/dcaiafa/lox/verifharness/lib/lexm"
	"github.com/dcaiafa/lox/verifharness/lib/loxb"
	"github.com/dcaiafa/lox/verifharness/lib/pgo"
	"github.com/dcaiafa/lox/verifharness/lib/tabdec"
	"pgregory.net/rapid"
)

type Case struct {
	Kind   string     // "lexer" or "parser" or "rows" or "det" (determinize_test.go)
	S      *lexm.Spec `json:",omitempty"`
	G      *cfgm.G    `json:",omitempty"`
	Rows   [][]int32  `json:",omitempty"`
	Lox    string     `json:",omitempty"`
	Detail string     `json:",omitempty"`
}

const productCap = 20000

// ---- lexer tables: product of the decoded table with the derivative automaton

func expectedActs(s *lexm.Spec, r *lexm.Rule, modeIdx map[string]int, tokID map[string]int) []tabdec.LexAct {
	var acts []tabdec.LexAct
	final := tabdec.LexAct{Type: 5}
	if r.Name != "" {
		final = tabdec.LexAct{Type: 3, Param: tokID[r.Name]}
	}
	for _, a := range r.Actions {
		switch a.Kind {
		case "push":
			acts = append(acts, tabdec.LexAct{Type: 1, Param: modeIdx[a.Arg]})
		case "pop":
			acts = append(acts, tabdec.LexAct{Type: 2})
		case "emit":
			final = tabdec.LexAct{Type: 3, Param: tokID[a.Arg]}
		case "discard":
			final = tabdec.LexAct{Type: 4}
		}
	}
	return append(acts, final)
}

func showActs(as []tabdec.LexAct) string {
	parts := make([]string, len(as))
	for i, a := range as {
		parts[i] = fmt.Sprintf("%s(%d)", []string{"?", "push", "pop", "accept", "discard", "accum"}[a.Type], a.Param)
	}
	return "[" + strings.Join(parts, " ") + "]"
}

type lexStats struct {
	states, shared, productStates int
	capped                        bool
}

func checkLexer(s *lexm.Spec, files map[string]string) (string, lexStats) {
	var st lexStats
	arrs, err := tabdec.IntArrays(files["lexer.gen.go"])
	if err != nil {
		return "lexer.gen.go does not parse: " + err.Error(), st
	}
	_, consts, _, err := tabdec.Consts(files["base.gen.go"])
	if err != nil {
		return "base.gen.go does not parse: " + err.Error(), st
	}
	tokID := map[string]int{}
	for n, v := range consts {
		tokID[n] = int(v)
	}
	// mode numbering: names in sorted order, the default mode is "$default"
	names := []string{}
	for _, m := range s.Modes {
		n := m.Name
		if n == "" {
			n = "$default"
		}
		names = append(names, n)
	}
	sorted := append([]string(nil), names...)
	sort.Strings(sorted)
	modeIdx := map[string]int{}
	for i, n := range sorted {
		if n == "$default" {
			modeIdx[""] = i
		} else {
			modeIdx[n] = i
		}
	}
	ref := lexm.NewRef(s)
	// a mode index (the parameter of a push action) is resolved at run time through the positional
	// list _lexerModes; the lexer starts in _lexerMode0
	idl, err := tabdec.IdentLists(files["lexer.gen.go"])
	if err != nil {
		return "lexer.gen.go does not parse: " + err.Error(), st
	}
	modeList := idl["_lexerModes"]
	if len(modeList) != len(s.Modes) {
		return fmt.Sprintf("_lexerModes lists %d tables for %d modes", len(modeList), len(s.Modes)), st
	}
	if modeList[modeIdx[""]] != "_lexerMode0" {
		return fmt.Sprintf("the default mode is entry %d of _lexerModes (%s) but the lexer starts in _lexerMode0", modeIdx[""], modeList[modeIdx[""]]), st
	}
	for mi, m := range s.Modes {
		arr, ok := arrs[modeList[modeIdx[m.Name]]]
		if !ok {
			return fmt.Sprintf("no table %s (entry %d of _lexerModes) for mode %q", modeList[modeIdx[m.Name]], modeIdx[m.Name], m.Name), st
		}
		tab, err := tabdec.DecodeLexMode(arr)
		if err != nil {
			return fmt.Sprintf("mode %q: %v", m.Name, err), st
		}
		st.states += len(tab.States)
		// shared rows must be identical rows: offsets equal => decoded rows equal (by construction of the decoder);
		// count sharing for the non-triviality rule
		offs := map[int64]int{}
		for i := range tab.States {
			offs[arr[i]]++
		}
		for _, n := range offs {
			if n > 1 {
				st.shared += n - 1
			}
		}
		// alphabet partition from the rules' sets and from the table's own ranges
		bset := map[rune]bool{}
		for _, b := range ref.Boundaries(mi) {
			bset[b] = true
		}
		for _, ts := range tab.States {
			for _, tr := range ts.Trans {
				bset[tr.Lo] = true
				if tr.Hi < lexm.MaxRune {
					bset[tr.Hi+1] = true
				}
			}
		}
		var reps []rune
		for b := range bset {
			reps = append(reps, b)
		}
		sort.Slice(reps, func(i, j int) bool { return reps[i] < reps[j] })
		type pstate struct {
			t  int
			ds []lexm.RE
		}
		key := func(p pstate) string {
			var sb strings.Builder
			fmt.Fprintf(&sb, "%d", p.t)
			for _, d := range p.ds {
				sb.WriteByte('|')
				sb.WriteString(lexm.KeyRE(d))
			}
			return sb.String()
		}
		start := pstate{0, ref.ModeRules(mi)}
		seen := map[string]bool{key(start): true}
		queue := []pstate{start}
		path := map[string][]rune{key(start): nil}
		for len(queue) > 0 {
			if len(seen) > productCap {
				st.capped = true
				break
			}
			p := queue[0]
			queue = queue[1:]
			st.productStates++
			ts := tab.States[p.t]
			pk := key(p)
			if ts.Flags != 0 {
				return fmt.Sprintf("mode %q state %d has flag bits %d although all operators are greedy (after %q)", m.Name, p.t, ts.Flags, string(path[pk])), st
			}
			// acceptance
			win := -1
			if len(path[pk]) > 0 || true {
				for i, d := range p.ds {
					if lexm.NullableRE(d) {
						win = i
						break
					}
				}
			}
			if (win >= 0) != (len(ts.Acts) > 0) {
				return fmt.Sprintf("mode %q after %q: table state %d has actions %s, but the rules' earliest match is rule #%d", m.Name, string(path[pk]), p.t, showActs(ts.Acts), win), st
			}
			if win >= 0 {
				want := expectedActs(s, m.Rules[win], modeIdx, tokID)
				if showActs(ts.Acts) != showActs(want) {
					return fmt.Sprintf("mode %q after %q: table actions %s, rule #%d (%s) prescribes %s", m.Name, string(path[pk]), showActs(ts.Acts), win, m.Rules[win].Text(), showActs(want)), st
				}
			}
			for _, c := range reps {
				nds := make([]lexm.RE, len(p.ds))
				alive := false
				for i, d := range p.ds {
					nds[i] = ref.Deriv(d, c)
					alive = alive || !lexm.Dead(nds[i])
				}
				tn, ok := ts.Next(c)
				if ok != alive {
					return fmt.Sprintf("mode %q after %q: on U+%04X the table has transition=%v, the rules continue=%v", m.Name, string(path[pk]), c, ok, alive), st
				}
				if ok {
					np := pstate{tn, nds}
					k := key(np)
					if !seen[k] {
						seen[k] = true
						path[k] = append(append([]rune(nil), path[pk]...), c)
						queue = append(queue, np)
					}
				}
			}
		}
	}
	return "", st
}

// ---- parser tables --------------------------------------------------------------

func checkParser(text string, files map[string]string) (string, int) {
	arrs, err := tabdec.IntArrays(files["parser.gen.go"])
	if err != nil {
		return "parser.gen.go does not parse: " + err.Error(), 0
	}
	pt, err := tabdec.DecodeParser(arrs)
	if err != nil {
		return "parser tables malformed: " + err.Error(), 0
	}
	lx := loxb.Front1(text)
	if lx.Panic != nil || !lx.OK {
		return "", 0
	}
	t := lx.T
	g := lx.G
	if len(pt.Rules) != len(g.Prods) {
		return fmt.Sprintf("_rules has %d entries, the grammar has %d productions", len(pt.Rules), len(g.Prods)), 0
	}
	for i, p := range g.Prods {
		if pt.Rules[i] != int64(p.Rule.Index) || pt.TermCounts[i] != int64(len(p.Terms)) {
			return fmt.Sprintf("production %d: _rules/_termCounts say (%d,%d), the grammar says (%d,%d)", i, pt.Rules[i], pt.TermCounts[i], p.Rule.Index, len(p.Terms)), 0
		}
	}
	if len(pt.Actions) != len(t.States) {
		return fmt.Sprintf("tables have %d states, the automaton %d", len(pt.Actions), len(t.States)), 0
	}
	for i, st := range t.States {
		want := map[int64]int64{}
		am := t.Actions(st)
		for _, term := range am.Terminals() {
			a := am.Get(term).Get(0)
			switch a.Type {
			case lr1.ActionShift:
				want[int64(term.Index)] = int64(a.ShiftState.Index)
			case lr1.ActionReduce:
				want[int64(term.Index)] = -int64(a.Prods[0].Index)
			case lr1.ActionAccept:
				want[int64(term.Index)] = tabdec.Accept
			}
		}
		if fmt.Sprint(want) != fmt.Sprint(pt.Actions[i]) {
			return fmt.Sprintf("state %d: _actions row %v, automaton %v", i, pt.Actions[i], want), 0
		}
		wg := map[int64]int64{}
		tm := t.Transitions(st)
		for _, in := range tm.Inputs() {
			if r, ok := in.(*lr1.Rule); ok {
				wg[int64(r.Index)] = int64(tm.Get(in).Index)
			}
		}
		if fmt.Sprint(wg) != fmt.Sprint(pt.Goto[i]) {
			return fmt.Sprintf("state %d: _goto row %v, automaton %v", i, pt.Goto[i], wg), 0
		}
	}
	return "", len(t.States)
}

// ---- encoder round trip (hook) -----------------------------------------------------

func checkRows(rows [][]int32) string {
	if encodeHook == nil {
		return ""
	}
	var arr []int32
	pan := ""
	func() {
		defer func() {
			if r := recover(); r != nil {
				pan = fmt.Sprint(r)
			}
		}()
		arr = encodeHook(rows)
	}()
	if pan != "" {
		return "table encoder panicked: " + pan
	}
	a64 := make([]int64, len(arr))
	for i, x := range arr {
		a64[i] = int64(x)
	}
	dec, err := tabdec.DecodeRows(a64, len(rows))
	if err != nil {
		return "encoded table malformed: " + err.Error()
	}
	for i, row := range rows {
		got := dec.Row[i]
		if len(got) != len(row) {
			return fmt.Sprintf("row %d: decoded length %d, encoded %d (rows %v)", i, len(got), len(row), rows)
		}
		for k := range row {
			if got[k] != int64(row[k]) {
				return fmt.Sprintf("row %d cell %d: decoded %d, encoded %d", i, k, got[k], row[k])
			}
		}
	}
	for i := range rows {
		for j := i + 1; j < len(rows); j++ {
			if dec.Offset[i] == dec.Offset[j] && fmt.Sprint(rows[i]) != fmt.Sprint(rows[j]) {
				return fmt.Sprintf("rows %d and %d share storage but differ: %v vs %v", i, j, rows[i], rows[j])
			}
		}
	}
	return ""
}

// resplit writes the non-negative cells of src in the given base, concatenates the digits
// and cuts the digit string at random places.
func resplit(rt *rapid.T, src []int32, base int) []int32 {
	var digits []int
	for _, v := range src {
		if v < 0 {
			continue
		}
		var ds []int
		for x := int(v); ; x /= base {
			ds = append([]int{x % base}, ds...)
			if x < base {
				break
			}
		}
		digits = append(digits, ds...)
	}
	var out []int32
	for i := 0; i < len(digits); {
		n := rapid.IntRange(1, 3).Draw(rt, "cut")
		if digits[i] == 0 {
			n = 1 // no leading zeros: the number would print differently
		}
		if i+n > len(digits) {
			n = len(digits) - i
		}
		v := 0
		for _, d := range digits[i : i+n] {
			v = v*base + d
		}
		out = append(out, int32(v))
		i += n
	}
	return out
}

func genRows(rt *rapid.T) [][]int32 {
	vals := []int32{0, 1, -1, 2, 5, 10, 12, 15, 21, 100, 215, 63, 64, 65, -64, -65, 127, 128, 255, 256, 8191, 8192, 16383, 16384, 1 << 20, 1<<21 - 1, 1 << 21, 1 << 28, 2147483647, -2147483648, -2147483647}
	n := rapid.IntRange(1, 40).Draw(rt, "nrows")
	if rapid.IntRange(0, 30).Draw(rt, "big") == 0 {
		n = rapid.IntRange(500, 3000).Draw(rt, "nrowsbig")
	}
	var rows [][]int32
	for i := 0; i < n; i++ {
		switch k := rapid.IntRange(0, 9).Draw(rt, "rk"); {
		case k <= 1 && len(rows) > 0: // equal to an earlier row
			rows = append(rows, append([]int32(nil), rows[rapid.IntRange(0, len(rows)-1).Draw(rt, "dup")]...))
		case k == 2 && len(rows) > 0: // prefix of an earlier row
			src := rows[rapid.IntRange(0, len(rows)-1).Draw(rt, "pre")]
			rows = append(rows, append([]int32(nil), src[:rapid.IntRange(0, len(src)).Draw(rt, "prel")]...))
		case k == 3 && len(rows) > 0: // earlier row plus one cell
			src := rows[rapid.IntRange(0, len(rows)-1).Draw(rt, "ext")]
			rows = append(rows, append(append([]int32(nil), src...), vals[rapid.IntRange(0, len(vals)-1).Draw(rt, "extv")]))
		case k == 4:
			rows = append(rows, []int32{})
		case k == 5 && len(rows) > 0:
			// the digits of an earlier row cut at other places: [2 15] -> [21 5], in base 10, 16 or 256
			// (rows that only a self-delimiting key tells apart)
			src := rows[rapid.IntRange(0, len(rows)-1).Draw(rt, "rs")]
			base := []int{10, 16, 256}[rapid.IntRange(0, 2).Draw(rt, "rsbase")]
			rows = append(rows, resplit(rt, src, base))
		default:
			l := rapid.IntRange(0, 6).Draw(rt, "len")
			row := make([]int32, l)
			for j := range row {
				row[j] = vals[rapid.IntRange(0, len(vals)-1).Draw(rt, "v")]
			}
			rows = append(rows, row)
		}
	}
	return rows
}

// ---- test --------------------------------------------------------------------------

func evalBatch(run *ev.Run, cases []*Case, count bool) ([]string, error) {
	var files []map[string]string
	for _, c := range cases {
		switch c.Kind {
		case "lexer":
			c.Lox = c.S.Lox()
			files = append(files, map[string]string{"g.lox": c.Lox, "user.go": forge.LexStub})
		case "parser":
			c.Lox = c.G.Lox()
			files = append(files, map[string]string{"g.lox": c.Lox, "user.go": pgo.UserGo(c.G, pgo.Opts{})})
		}
	}
	b, err := forge.GenerateOnly(files, true, false)
	if err != nil {
		return nil, err
	}
	defer b.Close()
	ds := make([]string, len(cases))
	for i, c := range cases {
		p := b.Pkgs[i]
		if !p.Gen.OK {
			if p.Gen.Panic != nil {
				ds[i] = fmt.Sprintf("generator panicked: %v", p.Gen.Panic)
			} else if c.Kind == "lexer" {
				ds[i] = "lox rejects a well-formed lexer specification: " + p.Gen.Diag
			}
			continue
		}
		if c.Kind == "lexer" || c.Kind == "parser" {
			var s *lexm.Spec
			if c.Kind == "lexer" {
				s = c.S
			} else {
				// the parser cases' lexer section: one single-character token per terminal plus a discarded blank
				s = &lexm.Spec{Modes: []*lexm.Mode{{Name: ""}}}
				for k, tn := range c.G.Toks {
					s.Modes[0].Rules = append(s.Modes[0].Rules, &lexm.Rule{Name: tn, E: &lexm.Expr{Kind: "lit", Lit: string(cfgm.TokChar(k))}})
				}
				s.Modes[0].Rules = append(s.Modes[0].Rules, &lexm.Rule{E: &lexm.Expr{Kind: "lit", Lit: " "}, Actions: []lexm.Action{{Kind: "discard"}}})
			}
			d, st := checkLexer(s, p.Out)
			if count {
				run.Eval(1)
				run.ClassN("lexer:table-states", st.states)
				run.ClassN("lexer:product-states-explored", st.productStates)
				if st.capped {
					run.Inconclusive("product above 20000 states")
				}
				if st.shared > 0 {
					run.Class("lexer:spec-with-shared-rows")
				}
				if st.shared > 0 && st.states >= 8 {
					run.Nontrivial(c.Lox)
				}
			}
			if d != "" {
				ds[i] = d
				continue
			}
		}
		if c.Kind == "parser" {
			d, n := checkParser(c.Lox, p.Out)
			if count {
				run.Eval(1)
				run.ClassN("parser:states", n)
				if n >= 8 {
					run.Nontrivial(c.Lox)
				}
			}
			ds[i] = d
		}
	}
	return ds, nil
}

func TestC10(t *testing.T) {
	run := ev.Start("C10")
	defer run.Finish(t)
	run.Rule = "lexer specs (greedy, non-empty classes, modes, actions; as C02/C07) and conflict-free grammars through the real codegen.Generate; the tables are read back from the text of lexer.gen.go / parser.gen.go by their documented row format. " +
		"Structure: every offset inside the table, rows length-prefixed, range triples sorted, disjoint and lo<=hi, targets valid, action pairs well-formed. " +
		"Lexer semantics over ALL strings per spec: breadth-first exploration of the product (decoded table state x derivative automaton of the mode's rules) over the alphabet partition induced by all range endpoints of both sides; in every product state: transition exists <=> some derivative is non-empty, actions present <=> some derivative nullable, and they are the earliest such rule's actions (push index by sorted mode name, token constant from base.gen.go), no flag bits; capped at 20000 product states per mode (skips counted). " +
		"Parser: _rules/_termCounts/_actions/_goto equal, state by state, the automaton constructed in-process from the same text. " +
		"Encoder round-trip (hook, tag verif): arbitrary row sets (duplicates, prefixes, extensions, empty rows, values around varint width changes, MaxInt32/MinInt32, thousands of rows) decode to themselves and share storage only when equal. " +
		"Determinisation differential (in-process, all accepted specifications incl. non-greedy repetitions and rules matching the empty string): lox's finished DFA of every mode walked in lock step with the harness's own subset construction over lox's NFA (no state merging, no range merging): same set of accepting NFA states, same non-greedy-accepting flag, transitions for the same code points; nothing is compared behind a non-greedy accepting state. " +
		"non-trivial = spec whose tables have >=8 states and (lexer) >=1 shared row; row set with >=2 equal rows"
	run.Assumptions = []string{"derivative automaton of lib/lexm is the meaning of a mode's rules", "the in-process automaton is 'what the tables were built from' (its own correctness is C04's subject)"}
	report := func(c *Case, d string) {
		c.Detail = d
		run.Violation(d, c)
	}
	one := func(c *Case) {
		if c.Kind == "det" {
			d, text := evalDet(run, c.S, true)
			c.Lox = text
			if d != "" {
				report(c, d)
			}
			return
		}
		if c.Kind == "rows" {
			if d := checkRows(c.Rows); d != "" {
				report(c, d)
			}
			return
		}
		ds, err := evalBatch(run, []*Case{c}, true)
		if err != nil {
			run.HarnessError("%v", err)
		}
		if ds[0] != "" {
			report(c, ds[0])
		}
	}
	if run.Replay != "" {
		var c Case
		if err := ev.LoadReplay(run.Replay, &c); err != nil {
			run.HarnessError("replay: %v", err)
		}
		one(&c)
		return
	}
	for _, f := range run.CanonFiles() {
		var c Case
		if err := ev.LoadReplay(f, &c); err != nil {
			run.HarnessError("canon %s: %v", f, err)
		}
		run.Class("replay-tier")
		one(&c)
	}
	if run.Violations() > 0 {
		return
	}
	// encoder round trip
	if encodeHook == nil {
		run.Class("encoder-hook-unavailable(sub-check skipped)")
	} else {
		f := run.Check("rows", run.N(8000, 100000), 8, func(rt *rapid.T, fail ev.FailFunc) {
			rows := genRows(rt)
			run.Eval(1)
			seen := map[string]bool{}
			for _, r := range rows {
				k := fmt.Sprint(r)
				if seen[k] {
					run.Nontrivial(fmt.Sprint(rows))
					break
				}
				seen[k] = true
			}
			run.Class("encoder:row-sets")
			if d := checkRows(rows); d != "" {
				fail(&Case{Kind: "rows", Rows: rows}, "%s", d)
			}
		})
		if f != nil {
			c, _ := f.Case.(*Case)
			if c == nil {
				run.HarnessError("rapid failure without a case: %s\n%s", f.Msg, f.Log)
			}
			report(c, f.Msg)
			return
		}
	}
	// determinisation differential (in-process): every kind of accepted specification
	fd := run.Check("det", run.N(3000, 50000), 8, propDet(run))
	if fd != nil {
		c, _ := fd.Case.(*Case)
		if c == nil {
			run.HarnessError("rapid failure without a case: %s\n%s", fd.Msg, fd.Log)
		}
		report(c, fd.Msg)
		return
	}
	if run.Thorough() {
		// the same property under the native coverage-guided fuzzer
		if cr := run.NativeFuzz("FuzzDet", 150*time.Second, 12); cr != nil {
			var c Case
			if err := json.Unmarshal(cr.Case, &c); err != nil {
				run.HarnessError("native fuzzing: case does not decode: %v", err)
			}
			if d, text := evalDet(run, c.S, false); d != "" {
				c.Lox = text
				report(&c, d)
				return
			}
			run.Inconclusive("native fuzzing: falsified case did not reproduce through the plain evaluator")
		}
	}
	n := run.N(1600, 25000)
	const batch = 400
	for done := 0; done < n; done += batch {
		var cases []*Case
		want := min(batch, n-done)
		fc := run.Check(fmt.Sprintf("collect-%d", done), want*3, 1, func(rt *rapid.T, fail ev.FailFunc) {
			if len(cases) >= want {
				return
			}
			if rapid.IntRange(0, 9).Draw(rt, "kind") < 6 {
				o := lexgen.Opts{MaxModes: 2, ModeActs: true, Frags: true, Macros: true, ShuffleAct: true, MaxRules: 7, BigPct: 4, RepeatPop: true}
				cases = append(cases, &Case{Kind: "lexer", S: lexgen.GenSpec(rt, o)})
				return
			}
			for try := 0; try < 6; try++ {
				g := cfggen.GenG(rt, cfggen.Opts{Shapes: true, Sugar: true, Styles: true, Guarded: rapid.Bool().Draw(rt, "guarded")})
				lx := loxb.Front1(g.Lox())
				if lx.Panic == nil && lx.OK && !lx.T.HasConflicts {
					cases = append(cases, &Case{Kind: "parser", G: g})
					return
				}
			}
		})
		if fc != nil {
			run.HarnessError("collect failed: %s\n%s", fc.Msg, fc.Log)
		}
		ds, err := evalBatch(run, cases, true)
		if err != nil {
			run.HarnessError("%v", err)
		}
		for i, c := range cases {
			run.Class("specs:" + c.Kind)
			if i < 2 {
				run.Sample(c.Kind, c.Lox)
			}
			if ds[i] != "" {
				report(c, ds[i])
				return
			}
		}
	}
	run.RequireClass("lexer:spec-with-shared-rows", 30)
}

// propDet is the determinisation differential as a generated-case property (rapid run and native fuzz target).
func propDet(run *ev.Run) func(rt *rapid.T, fail ev.FailFunc) {
	return func(rt *rapid.T, fail ev.FailFunc) {
		o := lexgen.Opts{MaxModes: 2, ModeActs: true, Frags: true, Macros: true, ShuffleAct: true, MaxRules: 6, RepeatPop: true,
			NonGreedy: rapid.IntRange(0, 2).Draw(rt, "ng") != 0, Nullable: rapid.IntRange(0, 3).Draw(rt, "nullable") == 0}
		c := &Case{Kind: "det", S: lexgen.GenSpec(rt, o)}
		if o.NonGreedy {
			run.Class("det:specs-with-non-greedy-repetitions-allowed")
		}
		d, text := evalDet(run, c.S, true)
		c.Lox = text
		if d != "" {
			fail(c, "%s", d)
		}
	}
}

// FuzzDet: coverage-guided search over the same structured generator (thorough tier).
func FuzzDet(f *testing.F) {
	run := ev.Start("C10")
	ev.FuzzTarget(f, propDet(run))
}
