//go:build !verif

package c10

var encodeHook func(rows [][]int32) []int32
var encodeSparseHook func(idx []int, rows [][]int32) []int32
