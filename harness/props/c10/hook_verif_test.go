//go:build verif

package c10

import "github.com/dcaiafa/lox/internal/codegen"

var encodeHook func(rows [][]int32) []int32 = codegen.EncodeTableForVerif
var encodeSparseHook func(idx []int, rows [][]int32) []int32 = codegen.EncodeSparseTableForVerif
