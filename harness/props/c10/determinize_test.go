package c10

// Third lexer part of C10: "subset construction, state merging and range merging
// change nothing observable" - for EVERY accepted specification, non-greedy
// repetitions and rules matching the empty string included (the product with the
// derivative automaton in c10_test.go needs the greedy reading and leaves those out).
//
// What the automaton is built from is lox's own NFA of a mode (still reachable from
// the finished DFA: every DFA state lists the NFA states it stands for). The harness
// determinises that NFA again with a textbook subset construction of its own - no
// merging of states, no merging of ranges - and walks both automata in lock step.
// Observable per state, as the generated PushRune sees it: which rule ends there (the
// set of accepting NFA states - lox's minimisation keeps states with different sets
// apart, so the set is well defined), whether the state is "non-greedy accepting"
// (the token ends there without looking at the next character), and for which code
// points a transition exists. Behind a non-greedy accepting state nothing is observable.

import (
	"fmt"
	"sort"
	"strings"

	"github.com/dcaiafa/lox/internal/lexergen/dfa"
	"github.com/dcaiafa/lox/internal/lexergen/mode"
	"github.com/dcaiafa/lox/internal/lexergen/nfa"
	"github.com/dcaiafa/lox/internal/lexergen/rang3"
	"github.com/dcaiafa/lox/verifharness/lib/ev"
	"github.com/dcaiafa/lox/verifharness/lib/lexm"
	"github.com/dcaiafa/lox/verifharness/lib/loxb"
)

type subset []*nfa.State // sorted by ID, ε-closed

func (s subset) key() string {
	var sb strings.Builder
	for _, x := range s {
		fmt.Fprintf(&sb, "%d,", x.ID)
	}
	return sb.String()
}

func closeEps(seed []*nfa.State) subset {
	seen := map[uint32]*nfa.State{}
	stack := append([]*nfa.State(nil), seed...)
	for len(stack) > 0 {
		x := stack[len(stack)-1]
		stack = stack[:len(stack)-1]
		if seen[x.ID] != nil {
			continue
		}
		seen[x.ID] = x
		if tos, ok := x.Transitions.Get(nfa.Epsilon); ok {
			stack = append(stack, tos.Elements()...)
		}
	}
	out := make(subset, 0, len(seen))
	for _, x := range seen {
		out = append(out, x)
	}
	sort.Slice(out, func(i, j int) bool { return out[i].ID < out[j].ID })
	return out
}

func (s subset) move(c rune) subset {
	var seed []*nfa.State
	for _, x := range s {
		for _, in := range nfaInputs(x) {
			if r, ok := in.(rang3.Range); ok && r.B <= c && c <= r.E {
				tos, _ := x.Transitions.Get(in)
				seed = append(seed, tos.Elements()...)
			}
		}
	}
	if len(seed) == 0 {
		return nil
	}
	return closeEps(seed)
}

func nfaInputs(x *nfa.State) []any {
	return x.Transitions.Keys()
}

type label struct {
	acc string // IDs of the accepting NFA states
	ng  bool   // non-greedy accepting
}

func (s subset) label() label {
	var ids []string
	ng := false
	for _, x := range s {
		if x.Accept {
			ids = append(ids, fmt.Sprint(x.ID))
		}
		ng = ng || x.NonGreedy
	}
	return label{acc: strings.Join(ids, ","), ng: ng && len(ids) > 0}
}

func dfaLabel(s *dfa.State) (label, string) {
	seen := map[uint32]bool{}
	var ids []int
	for _, x := range s.NFAStates {
		if x.Accept && !seen[x.ID] {
			seen[x.ID] = true
			ids = append(ids, int(x.ID))
		}
	}
	sort.Ints(ids)
	var parts []string
	for _, id := range ids {
		parts = append(parts, fmt.Sprint(id))
	}
	l := label{acc: strings.Join(parts, ","), ng: s.Accept && s.NonGreedy}
	if s.Accept != (len(ids) > 0) {
		return l, fmt.Sprintf("DFA state %d: Accept=%v but it stands for %d accepting NFA states", s.ID, s.Accept, len(ids))
	}
	return l, ""
}

func dfaNext(s *dfa.State, c rune) *dfa.State {
	var to *dfa.State
	s.Transitions.ForEach(func(in any, t *dfa.State) {
		if r, ok := in.(rang3.Range); ok && r.B <= c && c <= r.E {
			to = t
		}
	})
	return to
}

// detCheck walks lox's finished DFA of one mode and the harness's own determinisation of the
// same NFA in lock step. It returns a description of the first observable difference.
func detCheck(m *mode.Mode, capStates int) (diff string, pairs int, capped bool) {
	d := m.DFA
	if len(d.States) == 0 {
		return "mode without states", 0, false
	}
	// the NFA's start state was created last: it has the largest ID of the start subset
	var start *nfa.State
	for _, x := range d.States[0].NFAStates {
		if start == nil || x.ID > start.ID {
			start = x
		}
	}
	if start == nil {
		return "the start state stands for no NFA state", 0, false
	}
	// representatives: every boundary of every range of either automaton
	repSet := map[rune]bool{}
	addR := func(r rang3.Range) {
		for _, c := range []rune{r.B, r.E, r.B - 1, r.E + 1} {
			if c >= 0 && c <= lexm.MaxRune {
				repSet[c] = true
			}
		}
	}
	seenN := map[uint32]bool{}
	var walk func(x *nfa.State)
	walk = func(x *nfa.State) {
		if seenN[x.ID] {
			return
		}
		seenN[x.ID] = true
		for _, in := range nfaInputs(x) {
			if r, ok := in.(rang3.Range); ok {
				addR(r)
			}
			tos, _ := x.Transitions.Get(in)
			for _, t := range tos.Elements() {
				walk(t)
			}
		}
	}
	walk(start)
	for _, s := range d.States {
		s.Transitions.ForEach(func(in any, _ *dfa.State) {
			if r, ok := in.(rang3.Range); ok {
				addR(r)
			}
		})
	}
	reps := make([]rune, 0, len(repSet))
	for c := range repSet {
		reps = append(reps, c)
	}
	sort.Slice(reps, func(i, j int) bool { return reps[i] < reps[j] })

	type pair struct {
		s    subset
		t    *dfa.State
		path string
	}
	s0 := closeEps([]*nfa.State{start})
	queue := []pair{{s0, d.States[0], ""}}
	seen := map[string]bool{s0.key() + "|0": true}
	for len(queue) > 0 {
		p := queue[0]
		queue = queue[1:]
		pairs++
		want := p.s.label()
		got, bad := dfaLabel(p.t)
		if bad != "" {
			return bad, pairs, false
		}
		if p.path != "" && got != want {
			// (the runtime never acts in the start state itself: only states entered by a character count)
			return fmt.Sprintf("after %q: lox's state %d ends rules {%s} non-greedy-accepting=%v, the NFA's subset ends {%s} non-greedy-accepting=%v", p.path, p.t.ID, got.acc, got.ng, want.acc, want.ng), pairs, false
		}
		if p.path != "" && want.ng {
			continue // the token ends here: nothing behind this state is observable
		}
		for _, c := range reps {
			ns := p.s.move(c)
			nt := dfaNext(p.t, c)
			if (ns == nil) != (nt == nil) {
				return fmt.Sprintf("after %q on U+%04X: lox's DFA has a transition=%v, the NFA can move=%v", p.path, c, nt != nil, ns != nil), pairs, false
			}
			if ns == nil {
				continue
			}
			k := ns.key() + "|" + fmt.Sprint(nt.ID)
			if !seen[k] {
				if len(seen) >= capStates {
					return "", pairs, true
				}
				seen[k] = true
				queue = append(queue, pair{ns, nt, p.path + string(c)})
			}
		}
	}
	return "", pairs, false
}

// evalDet runs detCheck on every mode of a specification (in-process front end).
func evalDet(run *ev.Run, s *lexm.Spec, count bool) (string, string) {
	text := s.Lox() + "\n@parser\n@start zs = " + s.TokenNames()[2] + "\n"
	lx := loxb.Front1(text)
	if lx.Panic != nil {
		return fmt.Sprintf("front end panicked: %v", lx.Panic), text
	}
	if !lx.OK {
		if count {
			run.Class("det:rejected-by-front-end")
		}
		return "", text
	}
	names := make([]string, 0, len(lx.Modes))
	for n := range lx.Modes {
		names = append(names, n)
	}
	sort.Strings(names)
	for _, n := range names {
		diff, pairs, capped := detCheck(lx.Modes[n], 4000)
		if count {
			run.Eval(1)
			run.ClassN("det:state-pairs", pairs)
			if capped {
				run.Inconclusive("determinisation walk above 4000 state pairs")
			}
			if pairs >= 8 {
				run.Nontrivial("det|" + n + "|" + text)
			}
		}
		if diff != "" {
			return fmt.Sprintf("mode %q: %s", n, diff), text
		}
	}
	return "", text
}
