// C13 — output is deterministic and independent of earlier runs.
package c13

import (
	"bytes"
	"fmt"
	"os"
	"os/exec"
	"path/filepath"
	"strings"
	"sync"
	"testing"
	"time"

	"github.com/dcaiafa/lox/verifharness/lib/cfggen"
	"github.com/dcaiafa/lox/verifharness/lib/cfgm"
	"github.com/dcaiafa/lox/verifharness/lib/ev"
	"github.com/dcaiafa/lox/verifharness/lib/forge"
	"github.com/dcaiafa/lox/verifharness/lib/lexgen"
	"github.com/dcaiafa/lox/verifharness/lib/loxb"
	"github.com/dcaiafa/lox/verifharness/lib/pgo"
	"pgregory.net/rapid"
)

type Spec struct {
	Name    string
	Files   map[string]string // .lox and user .go (package name "pkg")
	Fast    bool              // import-free: eligible for the fast loader
	Sibling int               // index of a spec that differs minimally (same output length, late difference); -1 if none
}

type Step struct {
	Op   string
	Arg  string `json:",omitempty"`
	Spec int    `json:",omitempty"`
}

type Case struct {
	Specs   []*Spec
	History []Step
	Detail  string `json:",omitempty"`
}

func ri(t *rapid.T, lo, hi int, l string) int { return rapid.IntRange(lo, hi).Draw(t, l) }

const importingGo = `package pkg

import (
	"bytes"
	"strings"
	"time"
)

type Token struct{ S string }

type parser struct {
	lox
	b strings.Builder
}

type pair struct {
	K string
	V time.Duration
}

func (p *parser) on_doc(items []*pair) map[string]time.Duration {
	m := map[string]time.Duration{}
	for _, it := range items {
		m[it.K] = it.V
	}
	return m
}
func (p *parser) on_item(k Token, _ Token, v time.Duration) *pair { return &pair{k.S, v} }
func (p *parser) on_dur(n Token, u *bytes.Buffer) time.Duration          { return time.Duration(len(n.S) + u.Len()) }
func (p *parser) on_unit__s(_ Token) *bytes.Buffer                       { return bytes.NewBufferString("s") }
func (p *parser) on_unit__ms(_ Token, _ Token) *bytes.Buffer             { return bytes.NewBufferString("ms") }
func (p *parser) _onBounds(r any, b, e Token)                            {}
`

const importingLox = `@lexer
ID = [a-z]+
NUM = [0-9]+
EQ = '='
S = 's'
M = 'm'
@frag [ \n]+ @discard
STR = '"' @push_mode(Str)
@mode Str {
  @frag ~["\\]
  @frag '\\' .
  STREND = '"' @pop_mode
}

@parser
@start doc = item*
item = ID '=' dur
dur = NUM unit
unit = S | M S
`

// bigExprPair: an expression grammar with many @left operators and its sibling
// in which the levels of the last two operators are swapped: the generated files
// have the same length and differ only far from their beginning.
func bigExprPair(rt *rapid.T) (*Spec, *Spec) {
	// (an unambiguous grammar, cheap to generate: 44-56 guarded rules; the sibling swaps the two
	// tokens of the LAST rule, whose ids have the same number of digits)
	n := ri(rt, 44, 56, "nrules")
	mk := func(swap bool) *Spec {
		g := &cfgm.G{}
		for i := 0; i < n; i++ {
			g.Toks = append(g.Toks, fmt.Sprintf("T%c%c", 'A'+rune(i/26), 'A'+rune(i%26)))
		}
		tok := func(i int) cfgm.Term { return cfgm.Term{Kind: cfgm.KSym, Name: g.Toks[i], IsTok: true} }
		start := cfgm.Rule{Name: "s"}
		var rules []cfgm.Rule
		for i := 0; i < n; i++ {
			rn := fmt.Sprintf("r%c%c", 'a'+rune(i/26), 'a'+rune(i%26))
			start.Prods = append(start.Prods, cfgm.Prod{Terms: []cfgm.Term{tok(i), {Kind: cfgm.KSym, Name: rn}}})
			a, b := (i+3)%n, (i+7)%n
			if i == n-1 {
				// the differing rule sits at the end of a chain, so that its states are created in the
				// last waves of the construction and its table rows come last
				rules = append(rules, cfgm.Rule{Name: rn, Prods: []cfgm.Prod{{Terms: []cfgm.Term{tok(0), {Kind: cfgm.KSym, Name: "ca"}}}}})
				chain := []string{"ca", "cb", "cc", "cd", "ce", "cf", "last"}
				for k := 0; k+1 < len(chain); k++ {
					rules = append(rules, cfgm.Rule{Name: chain[k], Prods: []cfgm.Prod{{Terms: []cfgm.Term{tok(k + 1), {Kind: cfgm.KSym, Name: chain[k+1]}}}}})
				}
				a, b = n-2, n-3
				if swap {
					a, b = b, a
				}
				rules = append(rules, cfgm.Rule{Name: "last", Prods: []cfgm.Prod{{Terms: []cfgm.Term{tok(a), tok(b)}}}})
				continue
			}
			rules = append(rules, cfgm.Rule{Name: rn, Prods: []cfgm.Prod{{Terms: []cfgm.Term{tok(a), tok(b)}}, {Terms: []cfgm.Term{tok(i), tok(a), {Kind: cfgm.KOpt, Name: g.Toks[b], IsTok: true}}}}})
		}
		g.Rules = append([]cfgm.Rule{start}, rules...)
		return &Spec{Fast: true, Sibling: -1, Files: map[string]string{"g.lox": g.Lox(), "u.go": strings.ReplaceAll(pgo.UserGo(g, pgo.Opts{}), "package PKGNAME", "package pkg")}}
	}
	return mk(false), mk(true)
}

// bigLexPair: a keyword lexer and its sibling in which two late keywords swap their spellings.
func bigLexPair(rt *rapid.T) (*Spec, *Spec) {
	n := ri(rt, 70, 120, "nkw")
	words := map[string]bool{}
	var list []string
	letters := []rune("abcdefgh")
	for len(list) < n {
		l := ri(rt, 3, 5, "kwl")
		rs := make([]rune, l)
		for j := range rs {
			rs[j] = letters[ri(rt, 0, len(letters)-1, "kwc")]
		}
		if !words[string(rs)] && len(rs) == 4 || !words[string(rs)] && len(list) < n-2 {
			words[string(rs)] = true
			list = append(list, string(rs))
		}
	}
	// the last two words have the same length so that swapping them keeps every size
	list[n-1] = "hhhg"
	list[n-2] = "hhgh"
	mk := func(swap bool) *Spec {
		var sb strings.Builder
		sb.WriteString("@lexer\n@frag ' ' @discard\n")
		for i, w := range list {
			if swap && i == n-2 {
				w = list[n-1]
			} else if swap && i == n-1 {
				w = list[n-2]
			}
			fmt.Fprintf(&sb, "KW%03d = '%s'\n", i, w)
		}
		return &Spec{Fast: true, Sibling: -1, Files: map[string]string{"g.lox": sb.String(), "u.go": strings.ReplaceAll(forge.LexStub, "package PKGNAME", "package pkg")}}
	}
	return mk(false), mk(true)
}

func genPool(rt *rapid.T, n int) []*Spec {
	var pool []*Spec
	pool = append(pool, &Spec{Name: "importing", Sibling: -1, Files: map[string]string{"g.lox": importingLox, "p.go": importingGo}})
	a, b := bigExprPair(rt)
	a.Name, b.Name, a.Sibling, b.Sibling = "bigexpr", "bigexpr-swapped", 2, 1
	pool = append(pool, a, b)
	pool = append(pool, &Spec{Name: "modes-differing-in-case-only", Fast: true, Sibling: -1, Files: map[string]string{
		"g.lox": "@lexer\nA = 'a' @push_mode(Inner)\nB = 'b' @push_mode(INNER)\nC = 'c' @push_mode(inner)\nD = 'd' @push_mode(iNNer)\n@mode Inner {\n  E = 'e' @pop_mode\n}\n@mode INNER {\n  F = 'f' @pop_mode\n}\n@mode inner {\n  G = 'g' @pop_mode\n}\n@mode iNNer {\n  H = 'h' @pop_mode\n}\n",
		"u.go":  strings.ReplaceAll(forge.LexStub, "package PKGNAME", "package pkg")}})
	tokOrder := func(swap bool) *Spec {
		names := []string{"LET", "VAR", "FUN", "RET"}
		if swap {
			names[0], names[1] = names[1], names[0]
		}
		var sb strings.Builder
		sb.WriteString("@lexer\n@frag ' ' @discard\n")
		for _, n := range names {
			fmt.Fprintf(&sb, "%s = '%s'\n", n, strings.ToLower(n))
		}
		sb.WriteString("ID = [a-z]+\n")
		return &Spec{Fast: true, Sibling: -1, Files: map[string]string{"g.lox": sb.String(), "u.go": strings.ReplaceAll(forge.LexStub, "package PKGNAME", "package pkg")}}
	}
	t1, t2 := tokOrder(false), tokOrder(true)
	t1.Name, t2.Name = "token-order", "token-order-swapped"
	pool = append(pool, t1, t2)
	t1.Sibling, t2.Sibling = len(pool)-1, len(pool)-2
	c, d := bigLexPair(rt)
	c.Name, d.Name, c.Sibling, d.Sibling = "biglex", "biglex-swapped", 7, 6
	pool = append(pool, c, d)
	// the action methods of each rule spread over several Go files, equal types spelled in different
	// ways within a rule and across rules (any / interface{}, alias / aliased, []byte / []uint8): whichever file the Go loader
	// happens to finish first must not show in the output
	pool = append(pool, &Spec{Name: "actions-in-several-go-files", Sibling: -1, Files: map[string]string{
		"g.lox": "@lexer\nA = 'a'\nB = 'b'\nC = 'c'\nD = 'd'\n@frag ' ' @discard\n\n@parser\n@start s = yy zz qq v* C w+ B @list(x, D)?\nyy = D C\nzz = A C\nqq = B C\nv = A | B B | D A A | D B B B\nw = A B | A C C | A D D D | A A A A A\nx = C | B A | B B B\n",
		"t.go":  "package pkg\n\ntype Token struct{ S string }\n\ntype parser struct{ lox }\n\ntype Num = int32\n\nfunc (p *parser) on_s(y any, z Num, q []byte, vs []any, _ Token, ws []rune, _ Token, xs [][]byte) int { return len(vs) }\n",
		"a.go":  "package pkg\n\nfunc (p *parser) on_v__a(t Token) any { return nil }\nfunc (p *parser) on_w__a(a, b Token) Num { return 0 }\nfunc (p *parser) on_x__a(a Token) []byte { return nil }\n",
		"b.go":  "package pkg\n\nfunc (p *parser) on_v__b(t, u Token) interface{} { return nil }\nfunc (p *parser) on_w__b(a, b, c Token) int32 { return 0 }\nfunc (p *parser) on_x__b(a, b Token) []uint8 { return nil }\n\n// (rules of their own whose result types are the OTHER spelling of a type some other rule returns)\nfunc (p *parser) on_yy(a, b Token) interface{} { return nil }\n",
		"c.go":  "package pkg\n\nfunc (p *parser) on_v__c(t, u, v Token) (r any) { return }\nfunc (p *parser) on_w__c(a, b, c, d Token) rune { return 0 }\nfunc (p *parser) on_x__c(a, b, c Token) []byte { return nil }\nfunc (p *parser) on_zz(a, b Token) int32 { return 0 }\n",
		"d.go":  "package pkg\n\nfunc (p *parser) on_v__d(t, u, v, w Token) interface{} { return nil }\nfunc (p *parser) on_w__d(a, b, c, d, e Token) Num { return 0 }\nfunc (p *parser) on_qq(a, b Token) []uint8 { return nil }\n",
	}})
	// Go files in the directory that are not part of the package and declare other package names
	// (a build-ignored generator program, a tools file, the external test package)
	pool = append(pool, &Spec{Name: "other-package-clauses-beside", Sibling: -1, Files: map[string]string{
		"g.lox":        "@lexer\nA = 'a'\nB = 'b'\n@frag ' ' @discard\n\n@parser\n@start s = A B*\n",
		"p.go":         "package pkg\n\ntype Token struct{ S string }\n\ntype parser struct{ lox }\n\nfunc (p *parser) on_s(a Token, bs []Token) int { return len(bs) }\n",
		"gen.go":       "//go:build ignore\n\npackage main\n\nfunc main() {}\n",
		"tools.go":     "//go:build tools\n\npackage tools\n",
		"zz_x_test.go": "package pkg_test\n\nimport \"testing\"\n\nfunc TestNothing(t *testing.T) {}\n",
		"doc_plan9.go": "package plan9only\n",
	}})
	for len(pool) < n {
		switch ri(rt, 0, 2, "kind") {
		case 0: // lexer-heavy: many modes and overlapping ranges
			s := lexgen.GenSpec(rt, lexgen.Opts{MaxModes: 3, ModeActs: true, Frags: true, Macros: true, ShuffleAct: true, MaxRules: 8, Depth: 3})
			text := s.Lox()
			if lx := loxb.Front1(text); lx.Panic != nil || !lx.OK {
				continue
			}
			pool = append(pool, &Spec{Name: fmt.Sprintf("lex%d", len(pool)), Fast: true, Sibling: -1, Files: map[string]string{"g.lox": text, "u.go": strings.ReplaceAll(forge.LexStub, "package PKGNAME", "package pkg")}})
		default: // grammar with many tokens, rules and generated helpers
			g := cfggen.GenG(rt, cfggen.Opts{Sugar: true, Shapes: true, Guarded: true, SugarPct: 50, MaxTok: 7, MaxRul: 6})
			lx := loxb.Front1(g.Lox())
			if lx.Panic != nil || !lx.OK || lx.T.HasConflicts {
				continue
			}
			onb := rapid.Bool().Draw(rt, "onbounds")
			pool = append(pool, &Spec{Name: fmt.Sprintf("cfg%d", len(pool)), Fast: true, Sibling: -1, Files: map[string]string{"g.lox": g.Lox(), "u.go": strings.ReplaceAll(pgo.UserGo(g, pgo.Opts{OnBounds: onb}), "package PKGNAME", "package pkg")}})
		}
	}
	return pool
}

type output struct {
	files  map[string]string
	report string
}

func (o *output) diff(p *output) string {
	for _, n := range loxb.GenFiles {
		if o.files[n] != p.files[n] {
			a, b := strings.Split(o.files[n], "\n"), strings.Split(p.files[n], "\n")
			for i := 0; i < len(a) && i < len(b); i++ {
				if a[i] != b[i] {
					return fmt.Sprintf("%s line %d: %q vs %q", n, i+1, a[i], b[i])
				}
			}
			return fmt.Sprintf("%s: %d vs %d bytes", n, len(o.files[n]), len(p.files[n]))
		}
	}
	if o.report != p.report {
		a, b := strings.Split(o.report, "\n"), strings.Split(p.report, "\n")
		for i := 0; i < len(a) && i < len(b); i++ {
			if a[i] != b[i] {
				return fmt.Sprintf("report line %d: %q vs %q", i+1, a[i], b[i])
			}
		}
		return fmt.Sprintf("report: %d vs %d bytes", len(o.report), len(p.report))
	}
	return ""
}

type world struct {
	root   string // scratch module
	dir    string // root/pkg
	loxBin string
	cwd0   string
}

var genMu sync.Mutex

func newWorld(run *ev.Run) *world { return newWorldAt(run, "") }

// newWorldAt: place names a directory the scratch module is put under ("" = none). The names use
// characters that are ordinary in directory names but special to pattern matching.
func newWorldAt(run *ev.Run, place string) *world {
	root, err := os.MkdirTemp(os.Getenv("VERIF_WORK"), "c13-")
	if err != nil {
		run.HarnessError("%v", err)
	}
	if place != "" {
		// (a look-alike sibling that a pattern would match instead)
		os.MkdirAll(filepath.Join(root, "w1k", "m", "pkg"), 0o755)
		root = filepath.Join(root, place, "m")
	}
	w := &world{root: root, dir: filepath.Join(root, "pkg")}
	os.MkdirAll(w.dir, 0o755)
	os.WriteFile(filepath.Join(root, "go.mod"), []byte("module c13scratch\n\ngo 1.23.0\n"), 0o644)
	w.cwd0, _ = os.Getwd()
	return w
}

var loxBinOnce sync.Once
var loxBinPath string
var loxBinErr error

func loxBinary() (string, error) {
	loxBinOnce.Do(func() {
		bin := filepath.Join(os.Getenv("VERIF_WORK"), "c13-lox.bin")
		cmd := exec.Command("go", "build", "-o", bin, "./cmd/lox")
		cmd.Dir = ev.RepoDir()
		cmd.Env = append(os.Environ(), "GOFLAGS=-mod=mod", "GOPACKAGESDRIVER=off")
		if out, err := cmd.CombinedOutput(); err != nil {
			loxBinErr = fmt.Errorf("building lox: %v\n%s", err, out)
			return
		}
		loxBinPath = bin
	})
	return loxBinPath, loxBinErr
}

func (w *world) writeSpec(s *Spec) {
	ents, _ := os.ReadDir(w.dir)
	for _, e := range ents {
		n := e.Name()
		if strings.HasSuffix(n, ".gen.go") {
			continue
		}
		os.Remove(filepath.Join(w.dir, n))
	}
	for n, t := range s.Files {
		os.WriteFile(filepath.Join(w.dir, n), []byte(t), 0o644)
	}
}

// generate runs lox on the directory. mode: inproc|subprocess ; cwd: dir|parent|root ; arg: abs|rel
func (w *world) generate(mode, cwd, arg string) (*output, string) {
	var wd string
	switch cwd {
	case "dir":
		wd = w.dir
	case "parent":
		wd = w.root
	case "link":
		// the directory reached through a symbolic link (inside the module): cd link && lox .
		wd = filepath.Join(w.root, "pkglink")
		if _, err := os.Lstat(wd); err != nil {
			if err := os.Symlink("pkg", wd); err != nil {
				return nil, "harness: " + err.Error()
			}
		}
	default:
		wd = "/"
	}
	target := w.dir
	if cwd == "link" {
		target = wd
		if arg == "rel" {
			target = "."
		}
		arg = "abs"
	}
	if arg == "rel" {
		r, err := filepath.Rel(wd, w.dir)
		if err != nil {
			return nil, "harness: " + err.Error()
		}
		target = r
	}
	out := &output{}
	if mode == "inproc" {
		genMu.Lock()
		os.Chdir(wd)
		oldPWD, hadPWD := os.LookupEnv("PWD")
		os.Setenv("PWD", wd) // what a shell does on cd (os.Getwd prefers $PWD when it names the current directory)
		gr := loxb.Generate(target, true)
		if hadPWD {
			os.Setenv("PWD", oldPWD)
		} else {
			os.Unsetenv("PWD")
		}
		os.Chdir(w.cwd0)
		genMu.Unlock()
		if gr.Panic != nil {
			return nil, fmt.Sprintf("generator panicked: %v", gr.Panic)
		}
		if !gr.OK {
			return nil, "generator failed on a valid package: " + gr.Diag
		}
		out.report = gr.Report
	} else {
		bin, err := loxBinary()
		if err != nil {
			return nil, "harness: " + err.Error()
		}
		cmd := exec.Command(bin, "--report", target)
		cmd.Dir = wd
		cmd.Env = append(os.Environ(), "GOFLAGS=-mod=mod", "GOMAXPROCS=2", "PWD="+wd)
		var so, se bytes.Buffer
		cmd.Stdout, cmd.Stderr = &so, &se
		if err := cmd.Run(); err != nil {
			return nil, fmt.Sprintf("lox binary failed on a valid package: %v %s", err, se.String())
		}
		out.report = so.String()
	}
	out.files = loxb.ReadGen(w.dir)
	return out, ""
}

// canonical output: fresh directory, in-process, cwd = directory.
func canonical(run *ev.Run, s *Spec) (*output, string) {
	w := newWorld(run)
	defer os.RemoveAll(w.root)
	w.writeSpec(s)
	return w.generate("inproc", "dir", "abs")
}

// replay runs a history; returns the first deviation.
func replay(run *ev.Run, c *Case, canon map[int]*output) (string, bool) {
	place := ""
	if len(c.History) > 0 && c.History[0].Op == "place" {
		place = c.History[0].Arg
		run.Class("histories:module-under-a-directory-named-" + place)
	}
	w := newWorldAt(run, place)
	defer func() {
		if place != "" {
			os.RemoveAll(filepath.Dir(filepath.Dir(w.root)))
		}
		os.RemoveAll(w.root)
	}()
	cur := -1
	nontrivStale, nontrivChange := false, false
	lastMode, lastCwd := "", ""
	staleOf := -1 // spec whose generated files lie in the directory
	for i, st := range c.History {
		switch st.Op {
		case "writeSpec":
			cur = st.Spec
			w.writeSpec(c.Specs[cur])
		case "deleteGenerated":
			for _, n := range strings.Split(st.Arg, ",") {
				if n != "" {
					os.Remove(filepath.Join(w.dir, n))
				}
			}
		case "plantForeign":
			if o, ok := canon[st.Spec]; ok {
				for n, t := range o.files {
					os.WriteFile(filepath.Join(w.dir, n), []byte(t), 0o644)
				}
				staleOf = st.Spec
			}
		case "touchUserFile":
			now := time.Now()
			for n := range c.Specs[max(cur, 0)].Files {
				os.Chtimes(filepath.Join(w.dir, n), now, now)
			}
		case "generate":
			if cur < 0 {
				continue
			}
			parts := strings.Split(st.Arg, "/")
			if canon[cur] == nil {
				o, d := canonical(run, c.Specs[cur])
				if d != "" {
					return fmt.Sprintf("spec %s: %s", c.Specs[cur].Name, d), false
				}
				canon[cur] = o
			}
			if staleOf >= 0 && staleOf != cur {
				nontrivStale = true
			}
			if lastMode != "" && (lastMode != parts[0] || lastCwd != parts[1]) {
				nontrivChange = true
			}
			lastMode, lastCwd = parts[0], parts[1]
			o, d := w.generate(parts[0], parts[1], parts[2])
			run.Eval(1)
			if d != "" {
				return fmt.Sprintf("step %d (%s of %s): %s", i, st.Arg, c.Specs[cur].Name, d), false
			}
			if df := canon[cur].diff(o); df != "" {
				return fmt.Sprintf("step %d: generate(%s) of spec %s after %v differs from the output of a fresh, clean generation: %s", i, st.Arg, c.Specs[cur].Name, c.History[:i], df), false
			}
			staleOf = cur
		}
	}
	return "", nontrivStale && nontrivChange
}

func genHistory(rt *rapid.T, pool []*Spec) []Step {
	nSpecs := len(pool)
	var h []Step
	if ri(rt, 0, 3, "place") == 0 {
		// the module lives below a directory whose name holds pattern characters
		h = append(h, Step{Op: "place", Arg: []string{"w[1]k", "w?k", "w*k", "w k", "{w,k}"}[ri(rt, 0, 4, "placename")]})
	}
	cur := ri(rt, 0, nSpecs-1, "s0")
	if ri(rt, 0, 1, "startpair") == 0 {
		cur = []int{1, 2, 4, 5, 6, 7}[ri(rt, 0, 5, "s0pair")]
	}
	h = append(h, Step{Op: "writeSpec", Spec: cur})
	if sib := pool[cur].Sibling; sib >= 0 && ri(rt, 0, 3, "editscenario") != 0 {
		// the everyday scenario: generate, edit the spec minimally, generate again in place
		h = append(h, Step{Op: "generate", Arg: []string{"inproc", "subprocess"}[ri(rt, 0, 1, "m0")] + "/dir/abs"})
		cur = sib
		h = append(h, Step{Op: "writeSpec", Spec: cur})
		h = append(h, Step{Op: "generate", Arg: "inproc/" + []string{"dir", "parent", "root"}[ri(rt, 0, 2, "c0")] + "/abs"})
	}
	n := ri(rt, 2, 6, "steps")
	for i := 0; i < n; i++ {
		switch ri(rt, 0, 9, "op") {
		case 0, 1:
			next := ri(rt, 0, nSpecs-1, "s")
			if sib := pool[cur].Sibling; sib >= 0 && ri(rt, 0, 9, "sib") < 6 {
				next = sib // a minimal edit of the current spec
			}
			cur = next
			h = append(h, Step{Op: "writeSpec", Spec: cur})
		case 2:
			sub := []string{"base.gen.go", "lexer.gen.go", "parser.gen.go", "base.gen.go,parser.gen.go", "lexer.gen.go,parser.gen.go", "base.gen.go,lexer.gen.go,parser.gen.go"}
			h = append(h, Step{Op: "deleteGenerated", Arg: sub[ri(rt, 0, len(sub)-1, "sub")]})
		case 3:
			h = append(h, Step{Op: "plantForeign", Spec: ri(rt, 0, nSpecs-1, "f")})
		case 4:
			h = append(h, Step{Op: "touchUserFile"})
		default:
			mode := []string{"inproc", "inproc", "subprocess"}[ri(rt, 0, 2, "mode")]
			cwd := []string{"dir", "parent", "root", "link"}[ri(rt, 0, 3, "cwd")]
			arg := []string{"abs", "rel"}[ri(rt, 0, 1, "arg")]
			h = append(h, Step{Op: "generate", Arg: mode + "/" + cwd + "/" + arg})
		}
	}
	h = append(h, Step{Op: "generate", Arg: "inproc/dir/abs"})
	return h
}

func TestC13(t *testing.T) {
	run := ev.Start("C13")
	defer run.Finish(t)
	run.Rule = "a pool of order-sensitive packages (lexer specs with up to 3 modes, 8 rules per mode and overlapping ranges; grammars with up to 7 tokens, 6 rules and many generated helper rules, with and without _onBounds; a hand-written package whose actions use imported types; two sibling pairs that differ minimally - a 44-56 rule grammar with the two tokens of its last rule swapped, a 70-120 keyword lexer with two late spellings swapped, a small lexer with two token declarations swapped - so that regenerated files keep their length and differ only far from their beginning) and rapid-generated histories over ONE directory: writeSpec(i), generate(in-process | lox binary; cwd = the directory | its parent | / ; absolute | relative path), a quarter of the histories with the module below a directory named w[1]k / w?k / w*k / w k / {w,k}, deleteGenerated(subset), plantForeign(generated files of spec j), touchUserFile; " +
		"oracle: after every generate step the bytes of base.gen.go, lexer.gen.go, parser.gen.go and of the --report text equal those of a clean generation of the same spec in a fresh directory; in addition every import-free spec is regenerated repeatedly in-process (Go randomises map iteration per range statement, so repeats sample iteration orders) and must reproduce its bytes; " +
		"non-trivial = history with a generate over stale files of a different spec and a change of process or working directory between generates; distinct by history"
	run.Assumptions = []string{"touching a user file changes its mtime only", "the clean generation is in-process with cwd = the package directory"}
	forge.FastLoader(false)
	report := func(c *Case, d string) {
		c.Detail = d
		run.Violation(d, c)
	}
	if run.Replay != "" {
		var c Case
		if err := ev.LoadReplay(run.Replay, &c); err != nil {
			run.HarnessError("replay: %v", err)
		}
		if d, _ := replay(run, &c, map[int]*output{}); d != "" {
			report(&c, d)
		}
		return
	}
	for _, f := range run.CanonFiles() {
		var c Case
		if err := ev.LoadReplay(f, &c); err != nil {
			run.HarnessError("canon %s: %v", f, err)
		}
		run.Class("replay-tier")
		if d, _ := replay(run, &c, map[int]*output{}); d != "" {
			report(&c, d)
		}
	}
	if run.Violations() > 0 {
		return
	}
	// pool
	var pool []*Spec
	if f := run.Check("pool", 1, 1, func(rt *rapid.T, fail ev.FailFunc) { pool = genPool(rt, run.N(12, 40)) }); f != nil {
		run.HarnessError("pool: %s\n%s", f.Msg, f.Log)
	}
	for i, s := range pool {
		if i < 3 {
			run.Sample("pool-spec", map[string]any{"name": s.Name, "lox": s.Files["g.lox"]})
		}
	}
	// cheap repeats on the fast loader path (parallel, each in its own directory), then a few
	// repeats of the packages that need the real `go list` (imports, several Go files, foreign files)
	var wg sync.WaitGroup
	var mu sync.Mutex
	var firstBad *Case
	var firstDetail string
	sem := make(chan struct{}, 8)
	for pass := 0; pass < 2 && firstBad == nil; pass++ {
		forge.FastLoader(pass == 0)
		reps := run.N(60, 300)
		if pass == 1 {
			reps = run.N(8, 40)
		}
		for _, s := range pool {
			if s.Fast != (pass == 0) {
				continue
			}
			s := s
			wg.Add(1)
			sem <- struct{}{}
			go func() {
				defer wg.Done()
				defer func() { <-sem }()
				root, _ := os.MkdirTemp(os.Getenv("VERIF_WORK"), "c13r-")
				defer os.RemoveAll(root)
				dir := filepath.Join(root, "pkg")
				os.MkdirAll(dir, 0o755)
				os.WriteFile(filepath.Join(root, "go.mod"), []byte("module c13scratch\n\ngo 1.23.0\n"), 0o644)
				for n, t := range s.Files {
					os.WriteFile(filepath.Join(dir, n), []byte(t), 0o644)
				}
				var first *output
				myReps := reps
				for k := 0; k < myReps; k++ {
					t0 := time.Now()
					gr := loxb.Generate(dir, true)
					if k == 0 {
						// a budget of case COUNTS per spec, derived once from the cost of one generation
						// (large specs get fewer repeats); never a correctness signal
						if per := time.Since(t0); per > 0 && time.Duration(myReps)*per > 12*time.Second {
							myReps = max(3, int(12*time.Second/per))
						}
					}
					run.Eval(1)
					if s.Fast {
						run.Class("cheap-repeat")
					} else {
						run.Class("go-list-repeat")
					}
					o := &output{files: loxb.ReadGen(dir), report: gr.Report}
					var d string
					switch {
					case gr.Panic != nil || !gr.OK:
						d = fmt.Sprintf("generation %d of %s failed: %v %s", k, s.Name, gr.Panic, gr.Diag)
					case first == nil:
						first = o
					default:
						if df := first.diff(o); df != "" {
							d = fmt.Sprintf("repeat %d of spec %s differs from the first generation in the same process: %s", k, s.Name, df)
						}
					}
					if d != "" {
						mu.Lock()
						if firstBad == nil {
							firstBad = &Case{Specs: []*Spec{s}, History: []Step{{Op: "writeSpec"}, {Op: "generate", Arg: "inproc/dir/abs"}, {Op: "generate", Arg: "inproc/dir/abs"}}}
							firstDetail = d
						}
						mu.Unlock()
						return
					}
				}
			}()
		}
		wg.Wait()
	}
	forge.FastLoader(false)
	if firstBad != nil {
		report(firstBad, firstDetail)
		return
	}
	// histories (real go list, one directory each, sequential because the working directory is process-wide)
	canon := map[int]*output{}
	nH := run.N(30, 300)
	f := run.Check("histories", nH, 1, func(rt *rapid.T, fail ev.FailFunc) {
		c := &Case{Specs: pool, History: genHistory(rt, pool)}
		d, nt := replay(run, c, canon)
		run.Class("histories")
		if nt {
			run.Nontrivial(fmt.Sprint(c.History))
			run.Class("histories:stale-foreign+process/cwd-change")
		}
		run.Sample("history", c.History)
		if d != "" {
			// keep the replay small: only the specs the history uses
			used := map[int]int{}
			small := &Case{}
			for _, st := range c.History {
				if st.Op == "writeSpec" || st.Op == "plantForeign" {
					if _, ok := used[st.Spec]; !ok {
						used[st.Spec] = len(small.Specs)
						small.Specs = append(small.Specs, pool[st.Spec])
					}
					st.Spec = used[st.Spec]
				}
				small.History = append(small.History, st)
			}
			fail(small, "%s", d)
		}
	})
	if f != nil {
		c, _ := f.Case.(*Case)
		if c == nil {
			run.HarnessError("rapid failure without a case: %s\n%s", f.Msg, f.Log)
		}
		report(c, f.Msg)
		return
	}
	run.RequireClass("histories:stale-foreign+process/cwd-change", 2)
}
