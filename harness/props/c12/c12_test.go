// C12 — the generator never crashes: output or diagnostic, nothing else.
package c12

import (
	"bytes"
	"fmt"
	goparser "go/parser"
	gotoken "go/token"
	"os"
	"os/exec"
	"path/filepath"
	"regexp"
	"strings"
	"testing"
	"time"

	"github.com/dcaiafa/lox/verifharness/lib/cfggen"
	"github.com/dcaiafa/lox/verifharness/lib/ev"
	"github.com/dcaiafa/lox/verifharness/lib/forge"
	"github.com/dcaiafa/lox/verifharness/lib/lexgen"
	"github.com/dcaiafa/lox/verifharness/lib/loxb"
	"github.com/dcaiafa/lox/verifharness/lib/pgo"
	"pgregory.net/rapid"
)

type Case struct {
	Kind   string            // "text" (front end, in-process) or "pkg" (full generator on a directory)
	Files  map[string]string // file name -> content (.lox and .go); "go.mod" = "" means: no module
	NoMod  bool              `json:",omitempty"`
	Config string            `json:",omitempty"`
	Detail string            `json:",omitempty"`
}

func ri(t *rapid.T, lo, hi int, l string) int { return rapid.IntRange(lo, hi).Draw(t, l) }

// ---- corpus ----------------------------------------------------------------------

var loxBlock = regexp.MustCompile("(?s)```lox\n(.*?)```")

func corpus() []string {
	var out []string
	repo := ev.RepoDir()
	for _, g := range []string{"internal/parser/*.lox", "examples/*/*.lox"} {
		ms, _ := filepath.Glob(filepath.Join(repo, g))
		for _, m := range ms {
			if b, err := os.ReadFile(m); err == nil {
				out = append(out, string(b))
			}
		}
	}
	ms, _ := filepath.Glob(filepath.Join(repo, "docs/markdown/*.md"))
	for _, m := range ms {
		if b, err := os.ReadFile(m); err == nil {
			for _, blk := range loxBlock.FindAllStringSubmatch(string(b), -1) {
				t := blk[1]
				if !strings.Contains(t, "@lexer") && !strings.Contains(t, "@parser") {
					if strings.Contains(t, "@") && strings.Contains(t, "=") && strings.ToUpper(t[:1]) == t[:1] {
						t = "@lexer\n" + t
					} else {
						t = "@parser\n" + t
					}
				}
				out = append(out, t)
			}
		}
	}
	// hostile constants
	out = append(out,
		"@parser\n@start e = e A e @left(0)\n | B\n@lexer\nA='a'\nB='b'\n",
		"@parser\n@start e = e A e @left(99999999999999999999)\n | B\n@lexer\nA='a'\nB='b'\n",
		"@parser\n@start e = A ''\n@lexer\nA='a'\n",
		"@lexer\nA = [z-a]\n", "@lexer\nA = ''\n", "@lexer\n@mode M {\n", "@lexer\nA = ~[\\u0000-\\U0010FFFF]\n",
		"@lexer\nA = 'a' @push_mode(\n", "@parser\n@start s = @list(s, s)\n", "@parser\n@start s = @error*\n", "@parser\ns = @empty\n",
		"@lexer\n@macro M = M\nA = M\n", "@lexer\nA = '\\xZZ'\n", "@lexer\nA = '\\u12'\n", "@lexer\nA = [\\U00110000]\n", "@lexer\nA = '\\UFFFFFFFF'\n",
	)
	return out
}

var tokRe = regexp.MustCompile(`\s+|@?[A-Za-z_][A-Za-z0-9_]*|'(?:[^'\\\n]|\\.)*'|\[(?:[^\]\\\n]|\\.)*\]|[0-9]+|.`)

var stray = []string{"@lexer", "@parser", "@start", "@mode", "@macro", "@frag", "@external", "@emit(", "@push_mode(", "@pop_mode", "@discard", "@left(", "@right(", "@list(", "@error", "@empty", "@frog",
	"{", "}", "(", ")", "[", "]", "'", "''", "|", "=", "\\", "\\\n", "~", "-", "?", "*", "+", "*?", "+?", "*!", ",", ".", "0", "99999999999999999999", "-1", "//", "\x00", "\xff", "\xc0\x20", "\u2028", "EOF", "ERROR", "A__B", "a_", "\n", "\n\n", "\r\n", "\t"}

var declRe = regexp.MustCompile(`(?m)^\s*(?:@macro\s+|@start\s+)?([A-Za-z_][A-Za-z0-9_]*)\s*=`)
var identRe = regexp.MustCompile(`\b[A-Za-z][A-Za-z0-9_]*\b`)

func mutate(rt *rapid.T, text string, other string) string {
	toks := tokRe.FindAllString(text, -1)
	lines := strings.SplitAfter(text, "\n")
	switch ri(rt, 0, 14, "mut") {
	case 0: // delete a token
		if len(toks) > 0 {
			i := ri(rt, 0, len(toks)-1, "i")
			toks = append(toks[:i], toks[i+1:]...)
		}
		return strings.Join(toks, "")
	case 1: // duplicate a token
		if len(toks) > 0 {
			i := ri(rt, 0, len(toks)-1, "i")
			toks = append(toks[:i+1], toks[i:]...)
		}
		return strings.Join(toks, "")
	case 2: // transpose tokens
		if len(toks) > 1 {
			i, j := ri(rt, 0, len(toks)-1, "i"), ri(rt, 0, len(toks)-1, "j")
			toks[i], toks[j] = toks[j], toks[i]
		}
		return strings.Join(toks, "")
	case 3: // insert a stray token
		i := ri(rt, 0, len(toks), "i")
		s := stray[ri(rt, 0, len(stray)-1, "s")]
		toks = append(toks[:i], append([]string{s}, toks[i:]...)...)
		return strings.Join(toks, "")
	case 4: // replace a token by a stray one
		if len(toks) > 0 {
			toks[ri(rt, 0, len(toks)-1, "i")] = stray[ri(rt, 0, len(stray)-1, "s")]
		}
		return strings.Join(toks, "")
	case 5: // delete a line
		if len(lines) > 0 {
			i := ri(rt, 0, len(lines)-1, "i")
			lines = append(lines[:i], lines[i+1:]...)
		}
		return strings.Join(lines, "")
	case 6: // duplicate a line
		if len(lines) > 0 {
			i := ri(rt, 0, len(lines)-1, "i")
			lines = append(lines[:i+1], lines[i:]...)
		}
		return strings.Join(lines, "")
	case 7: // transpose lines
		if len(lines) > 1 {
			i, j := ri(rt, 0, len(lines)-1, "i"), ri(rt, 0, len(lines)-1, "j")
			lines[i], lines[j] = lines[j], lines[i]
		}
		return strings.Join(lines, "")
	case 8: // splice with another spec
		ol := strings.SplitAfter(other, "\n")
		i, j := ri(rt, 0, len(lines), "i"), ri(rt, 0, len(ol), "j")
		return strings.Join(lines[:i], "") + strings.Join(ol[j:], "")
	case 9: // truncate
		if len(text) > 0 {
			return text[:ri(rt, 0, len(text)-1, "cut")]
		}
	case 10: // numeric extremes
		num := []string{"0", "1", "2147483647", "2147483648", "9223372036854775807", "9223372036854775808", "99999999999999999999", "00", "-1"}[ri(rt, 0, 8, "num")]
		if loc := regexp.MustCompile(`\(\d+\)`).FindStringIndex(text); loc != nil {
			return text[:loc[0]] + "(" + num + ")" + text[loc[1]:]
		}
		return text + "\n@parser\n@start zz = zz ZZ zz @left(" + num + ") | ZZ\n@lexer\nZZ='z'\n"
	case 11: // a very long line
		i := ri(rt, 0, len(lines), "i")
		long := "LONG" + fmt.Sprint(i) + " = " + strings.Repeat("'ab' | ", ri(rt, 200, 3000, "rep")) + "'c'\n"
		return strings.Join(lines[:i], "") + long + strings.Join(lines[i:], "")
	case 13: // rewire a reference: an identifier in a body is replaced by another declared name
		// (cycles, self references, forward references, names of the wrong kind - syntax stays valid)
		var names []string
		for _, m := range declRe.FindAllStringSubmatch(text, -1) {
			names = append(names, m[1])
		}
		locs := identRe.FindAllStringIndex(text, -1)
		if len(names) > 0 && len(locs) > 0 {
			l := locs[ri(rt, 0, len(locs)-1, "loc")]
			return text[:l[0]] + names[ri(rt, 0, len(names)-1, "name")] + text[l[1]:]
		}
	case 14: // a family of macros referring to each other in a random graph (cycles with tails,
		// declared in any order), one of them used by a token
		n := ri(rt, 2, 4, "nmac")
		var decl []string
		for i := 0; i < n; i++ {
			body := "'q" + fmt.Sprint(i) + "'"
			for k, nk := 0, ri(rt, 1, 2, "nref"); k < nk; k++ {
				body += []string{" ", " | ", "? ", "* "}[ri(rt, 0, 3, "op")] + fmt.Sprintf("ZM%d", ri(rt, 0, n-1, "ref"))
			}
			decl = append(decl, fmt.Sprintf("@macro ZM%d = %s\n", i, body))
		}
		decl = append(decl, fmt.Sprintf("ZMTOK = 'zm' ZM%d\n", ri(rt, 0, n-1, "use")))
		decl = rapid.Permutation(decl).Draw(rt, "order")
		block := strings.Join(decl, "")
		if i := strings.Index(text, "@lexer"); i >= 0 {
			if j := strings.IndexByte(text[i:], '\n'); j >= 0 {
				return text[:i+j+1] + block + text[i+j+1:]
			}
		}
		return text + "\n@lexer\n" + block
	default: // raw bytes
		i := ri(rt, 0, len(text), "i")
		b := []string{"\x00", "\xff", "\xc0\x20", "\xe2\x82", "\xf4\x90\x80\x80", "\xed\xa0\x80"}[ri(rt, 0, 5, "b")]
		return text[:i] + b + text[i:]
	}
	return text
}

func baseText(rt *rapid.T, corp []string) string {
	switch ri(rt, 0, 3, "base") {
	case 0:
		return corp[ri(rt, 0, len(corp)-1, "corp")]
	case 1:
		return cfggen.GenG(rt, cfggen.Opts{Sugar: true, Prec: true, Err: true, ErrSugar: true, Shapes: true, Styles: true}).Lox()
	case 2:
		return lexgen.GenSpec(rt, lexgen.Opts{MaxModes: 2, ModeActs: true, Frags: true, Macros: true, ShuffleAct: true, Nullable: true}).Lox()
	default:
		g := cfggen.GenG(rt, cfggen.Opts{Sugar: true, Shapes: true})
		l := lexgen.GenSpec(rt, lexgen.Opts{MaxModes: 1, ModeActs: true, Frags: true, Macros: true}).Lox()
		return g.Lox() + "\n" + l
	}
}

// ---- in-process front end (volume) -----------------------------------------------

type feResult struct {
	lx *loxb.Lox
}

func frontGuarded(files []loxb.File) (*loxb.Lox, bool) {
	ch := make(chan *loxb.Lox, 1)
	go func() { ch <- loxb.Front(files) }()
	select {
	case lx := <-ch:
		return lx, true
	case <-time.After(30 * time.Second):
		return nil, false
	}
}

var repoFrame = regexp.MustCompile(`(?m)^\s+(\S*/(?:internal|cmd)/\S+\.go:\d+)`)

func topRepoFrame(stack string) string {
	repo := ev.RepoDir()
	for _, l := range strings.Split(stack, "\n") {
		l = strings.TrimSpace(l)
		if strings.HasPrefix(l, repo+"/") && !strings.Contains(l, "/base/assert/") {
			f := strings.TrimPrefix(l, repo+"/")
			if i := strings.Index(f, " "); i > 0 {
				f = f[:i]
			}
			return f
		}
	}
	return "?"
}

func evalText(run *ev.Run, c *Case) string {
	var files []loxb.File
	for n, t := range c.Files {
		files = append(files, loxb.File{Name: n, Text: t})
	}
	lx, done := frontGuarded(files)
	run.Eval(1)
	if !done {
		// confirm with the real binary under a much larger guard before reporting a hang
		if d := evalPkg(run, &Case{Kind: "pkg", Files: c.Files, Config: "hang-confirmation"}, true); strings.HasPrefix(d, "hang") {
			return d
		}
		run.Inconclusive("front end slower than 30 s in-process but finished in a subprocess")
		return ""
	}
	switch {
	case lx.Panic != nil:
		run.Class("outcome:panic")
		return fmt.Sprintf("panic at %s: %v", topRepoFrame(lx.PanicStk), lx.Panic)
	case lx.OK:
		run.Class("outcome:accepted")
		run.Nontrivial("ok|" + fmt.Sprint(c.Files))
	default:
		run.Class("outcome:rejected-at-" + lx.Stage)
		if strings.TrimSpace(lx.Diag) == "" {
			return "rejected without any diagnostic (stage " + lx.Stage + ")"
		}
		if lx.Stage != "parse" {
			run.Nontrivial(lx.Stage + "|" + firstLine(lx.Diag))
		} else if strings.Count(lx.Diag, "\n") >= 1 && !strings.Contains(lx.Diag, "lexer error") {
			run.Nontrivial("parse|" + firstLine(lx.Diag))
		}
	}
	return ""
}

func clip(s string, n int) string {
	if len(s) > n {
		return s[:n] + "…"
	}
	return s
}

var posPrefix = regexp.MustCompile(`^\S+:\d+:\d+: `)

func firstLine(s string) string {
	l := strings.SplitN(s, "\n", 2)[0]
	l = posPrefix.ReplaceAllString(l, "")
	l = regexp.MustCompile(`[0-9]+|'[^']*'|"[^"]*"|\b[A-Za-z_][A-Za-z0-9_]*\b: `).ReplaceAllString(l, "#")
	return l
}

// ---- full generator on a directory ---------------------------------------------------

var loxBin string

func buildLox() error {
	if loxBin != "" {
		return nil
	}
	bin := filepath.Join(os.Getenv("VERIF_WORK"), "lox.bin")
	cmd := exec.Command("go", "build", "-o", bin, "./cmd/lox")
	cmd.Dir = ev.RepoDir()
	cmd.Env = append(os.Environ(), "GOFLAGS=-mod=mod", "GOPACKAGESDRIVER=off")
	if out, err := cmd.CombinedOutput(); err != nil {
		return fmt.Errorf("building lox: %v\n%s", err, out)
	}
	loxBin = bin
	return nil
}

func writeDir(c *Case) (string, string, error) {
	root, err := os.MkdirTemp(os.Getenv("VERIF_WORK"), "c12-")
	if err != nil {
		return "", "", err
	}
	dir := filepath.Join(root, "pkg")
	os.MkdirAll(dir, 0o755)
	if !c.NoMod {
		os.WriteFile(filepath.Join(root, "go.mod"), []byte("module c12scratch\n\ngo 1.23.0\n"), 0o644)
	}
	for n, t := range c.Files {
		os.WriteFile(filepath.Join(dir, n), []byte(t), 0o644)
	}
	return root, dir, nil
}

func checkOutputs(dir string, ok bool, diag string) string {
	if ok {
		for _, n := range loxb.GenFiles {
			b, err := os.ReadFile(filepath.Join(dir, n))
			if err != nil || len(b) == 0 {
				return "success reported but " + n + " is missing or empty"
			}
			if _, err := goparser.ParseFile(gotoken.NewFileSet(), n, b, 0); err != nil {
				return "success reported but " + n + " is not valid Go: " + err.Error()
			}
		}
		return ""
	}
	if strings.TrimSpace(diag) == "" {
		return "failure reported without any diagnostic"
	}
	return ""
}

// evalPkg runs the real generator: in-process (under recover) and, when binary is set, the lox executable.
func evalPkg(run *ev.Run, c *Case, binary bool) string {
	root, dir, err := writeDir(c)
	if err != nil {
		run.HarnessError("%v", err)
	}
	defer os.RemoveAll(root)
	run.Eval(1)
	if !binary {
		forge.FastLoader(false)
		gr := loxb.Generate(dir, false)
		if gr.Panic != nil {
			run.Class("pkg-outcome:panic")
			return fmt.Sprintf("panic at %s: %v", topRepoFrame(gr.PanicStk), gr.Panic)
		}
		if gr.OK {
			run.Class("pkg-outcome:generated")
		} else {
			run.Class("pkg-outcome:diagnostic")
		}
		run.Nontrivial(c.Config + "|" + fmt.Sprint(gr.OK) + "|" + firstLine(gr.Diag))
		return checkOutputs(dir, gr.OK, gr.Diag)
	}
	if err := buildLox(); err != nil {
		run.HarnessError("%v", err)
	}
	cmd := exec.Command(loxBin, dir)
	cmd.Dir = root
	var so, se bytes.Buffer
	cmd.Stdout, cmd.Stderr = &so, &se
	cmd.Env = append(os.Environ(), "GOFLAGS=-mod=mod", "GOPACKAGESDRIVER=off", "GOMAXPROCS=2")
	if err := cmd.Start(); err != nil {
		run.HarnessError("%v", err)
	}
	done := make(chan error, 1)
	go func() { done <- cmd.Wait() }()
	// A hang is decided on CPU time, not on wall-clock time: a lox process that has been running
	// for two minutes AND has itself burnt a minute of CPU is spinning; one that is merely kept
	// off the processor by a loaded machine (or waits for a slow `go list`) is not, and if it is
	// still not done after 15 minutes the case is inconclusive, never a violation.
	t0 := time.Now()
	for {
		select {
		case err := <-done:
			code := 0
			if ee, ok := err.(*exec.ExitError); ok {
				code = ee.ExitCode()
			} else if err != nil {
				run.HarnessError("%v", err)
			}
			run.Class(fmt.Sprintf("binary-exit:%d", code))
			if strings.Contains(se.String(), "goroutine ") && strings.Contains(se.String(), "panic") {
				return fmt.Sprintf("lox binary panicked (exit %d) at %s: %s", code, topRepoFrame(se.String()), firstLine(se.String()))
			}
			return checkOutputs(dir, code == 0, se.String())
		case <-time.After(2 * time.Second):
		}
		wall := time.Since(t0)
		if wall >= 120*time.Second && procCPU(cmd.Process.Pid) >= 60*time.Second {
			cmd.Process.Kill()
			<-done
			return "hang: the lox binary did not finish within 120 s and burnt more than 60 s of CPU time itself"
		}
		if wall >= 15*time.Minute {
			cmd.Process.Kill()
			<-done
			run.Inconclusive("lox binary not finished after 15 minutes without using CPU (stalled machine or go list)")
			return ""
		}
	}
}

// procCPU reads the CPU time (user+system) a process has consumed from /proc/<pid>/stat.
func procCPU(pid int) time.Duration {
	b, err := os.ReadFile(fmt.Sprintf("/proc/%d/stat", pid))
	if err != nil {
		return 0
	}
	s := string(b)
	if i := strings.LastIndexByte(s, ')'); i >= 0 {
		s = s[i+1:]
	}
	f := strings.Fields(s) // f[0] = state, utime = field 14 overall = f[11], stime = f[12]
	if len(f) < 13 {
		return 0
	}
	var ut, st int64
	fmt.Sscan(f[11], &ut)
	fmt.Sscan(f[12], &st)
	return time.Duration(ut+st) * (time.Second / 100)
}

// ---- Go package configurations ----------------------------------------------------------

const validSpec = "@lexer\nNUM = [0-9]+\nADD = '+'\n@frag ' ' @discard\n\n@parser\n@start s = s ADD NUM | NUM\n"
const validGo = "package pkg\n\ntype Token struct{}\n\ntype parser struct{ lox }\n\nfunc (p *parser) on_s__a(l int, _ Token, r Token) int { return l + 1 }\nfunc (p *parser) on_s__b(n Token) int                { return 1 }\n"

type pkgConfig struct {
	name  string
	files map[string]string
	nomod bool
}

func genPkgConfig(rt *rapid.T) pkgConfig {
	g := cfggen.GenG(rt, cfggen.Opts{Sugar: true, Guarded: true})
	return pkgConfig{name: "generated-grammar+matching-actions", files: map[string]string{"g.lox": g.Lox(), "u.go": strings.ReplaceAll(pgo.UserGo(g, pgo.Opts{}), "package PKGNAME", "package pkg")}}
}

// genOddPkg composes a Go package from alphabets of declaration shapes around a fixed
// grammar that uses every sugar: how Token, the parser struct, the element types, their
// Discard members, the action methods and _onBounds are declared. Most combinations are
// wrong in one or two ways; lox has to say so (or succeed), never crash.
func genOddPkg(rt *rapid.T) pkgConfig {
	pick := func(label string, xs ...string) string {
		// the first entry is the ordinary form and is taken half of the time
		if rapid.Bool().Draw(rt, label+"-plain") {
			return xs[0]
		}
		return xs[ri(rt, 0, len(xs)-1, label)]
	}
	lox := "@lexer\nA = 'a'\nB = 'b'\nC = 'c'\n@frag ' ' @discard\n\n@parser\n@start s = x*! y? @list(z, B) w+\n  | @error\nx = A\ny = B\nz = C\nw = A B\n"
	var g strings.Builder
	g.WriteString("package pkg\n\n")
	g.WriteString(pick("token",
		"type Token struct{ ID int }\n",
		"type Token = int\n",
		"type Token interface{}\n",
		"type Token[T any] struct{ v T }\n",
		"var Token int\n",
		"func Token() {}\n",
		"type Token struct{ ID int }\n\nfunc (Token) Discard() {}\n",
		"type token struct{}\n") + "\n")
	g.WriteString(pick("parser",
		"type parser struct{ lox }\n",
		"type parser struct {\n\tlox\n\tdepth int\n}\n",
		"type parser struct{ l lox }\n",
		"type parser struct{ lox lox }\n",
		"type inner struct{ lox }\n\ntype parser struct{ inner }\n",
		"type parser = struct{ lox }\n",
		"type parser struct{ lox }\n\ntype lox2 = lox\n\ntype second struct{ lox2 }\n",
		"type parser interface{ lox }\n",
		"type parser struct{ lox }\n\ntype Error struct{}\n") + "\n")
	item := pick("item",
		"type Item struct{ N int }\n",
		"type Item int\n",
		"type Item []int\n",
		"type Item = *struct{ N int }\n",
		"type Item interface{ Discard() bool }\n",
		"type Item[T any] struct{ v T }\n",
		"type Item func() bool\n",
		"type base struct{}\n\nfunc (base) Discard() bool { return false }\n\ntype Item struct{ base }\n",
		"type Item struct{ Discard bool }\n",
		"type Item struct{ Discard func() bool }\n")
	g.WriteString(item + "\n")
	if !strings.Contains(item, "Discard") {
		g.WriteString(pick("discard",
			"func (i Item) Discard() bool { return false }\n",
			"func (i *Item) Discard() bool { return false }\n",
			"func (i Item) Discard() {}\n",
			"func (i *Item) Discard() {}\n",
			"func (i Item) Discard() int { return 0 }\n",
			"func (i Item) Discard() (bool, error) { return false, nil }\n",
			"func (i Item) Discard(x int) bool { return false }\n",
			"func (i Item) Discard(xs ...int) bool { return false }\n",
			"func (i Item) Discard() (ok bool) { return }\n",
			"func (i Item) discard() bool { return false }\n",
			"") + "\n")
	}
	xt := pick("xtype", "Item", "*Item", "any", "[]Item", "Item", "map[string]Item", "func() Item", "chan Item", "struct{ Item }", "*Token")
	recv := pick("recv", "(p *parser)", "(p parser)", "(parser)", "(p *inner)", "(p *lox)", "(p **parser)")
	g.WriteString("func " + recv + " on_x(a Token) " + xt + " { var r " + xt + "; return r }\n")
	g.WriteString(pick("on_y",
		"func (p *parser) on_y(b Token) int { return 1 }\n",
		"func (p *parser) on_y(Token) int { return 1 }\n",
		"func (p *parser) on_y(_ Token) (r int) { return }\n",
		"func (p *parser) on_y(b ...Token) int { return 1 }\n",
		"func (p *parser) on_y() int { return 1 }\n",
		"func (p *parser) on_y(b Token) {}\n",
		"func (p *parser) on_y(b Token) (int, int) { return 1, 2 }\n",
		"func (p *parser) on_y[T any](b T) int { return 1 }\n",
		"func on_y(p *parser, b Token) int { return 1 }\n",
		"func (p *parser) On_y(b Token) int { return 1 }\n",
		"func (p *parser) on_y__(b Token) int { return 1 }\n",
		"func (p *parser) on_y__1(b Token) int { return 1 }\nfunc (p *parser) on_y__2(b Token) int { return 1 }\n"))
	g.WriteString("func (p *parser) on_z(c Token) string { return \"z\" }\n")
	g.WriteString("func (p *parser) on_w(a, b Token) Token { return a }\n")
	g.WriteString(pick("on_s",
		"func (p *parser) on_s(xs []"+xt+", y int, zs []string, ws []Token) int { return 0 }\n",
		"func (p *parser) on_s(xs any, y any, zs any, ws any) int { return 0 }\n",
		"func (p *parser) on_s(xs []"+xt+", y int, zs []string, ws ...Token) int { return 0 }\n",
		"func (p *parser) on_s(all ...any) int { return 0 }\n",
		"func (p *parser) on_s(xs []"+xt+", y *int, zs []string, ws []Token) int { return 0 }\n",
		"func (p *parser) on_s(xs ["+"3]"+xt+", y int, zs []string, ws []Token) int { return 0 }\n",
		"func (p *parser) on_s(xs []"+xt+", y int, zs []string) int { return 0 }\n",
		"func (p *parser) on_s(xs []"+xt+", y int, zs []string, ws []Token) *parser { return p }\n",
		"func (p *parser) on_s(xs []"+xt+", y int, zs []string, ws []Token) (r lox) { return }\n"))
	g.WriteString(pick("on_err",
		"func (p *parser) on_s__err(e Error) int { return 0 }\n",
		"func (p *parser) on_s__err(e error) int { return 0 }\n",
		"func (p *parser) on_s__err(e any) int { return 0 }\n",
		"func (p *parser) on_s__err(e Token) int { return 0 }\n",
		"func (p *parser) on_s__err(e *Error) int { return 0 }\n",
		"func (p *parser) on_s__err() int { return 0 }\n",
		""))
	g.WriteString(pick("bounds",
		"",
		"func (p *parser) _onBounds(r any, begin, end Token) {}\n",
		"func (p *parser) _onBounds() {}\n",
		"func (p *parser) _onBounds(r any) {}\n",
		"func (p *parser) _onBounds(r any, begin, end Token, more int) {}\n",
		"func (p *parser) _onBounds(r int, begin, end string) {}\n",
		"func (p *parser) _onBounds(r any, begin, end Token) int { return 0 }\n",
		"func (p *parser) _onBounds(r any, be ...Token) {}\n",
		"func (p parser) _onBounds(r any, begin, end Token) {}\n",
		"var _onBounds = 1\n",
		"func (p *parser) on_(a Token) int { return 0 }\n",
		"func (p *parser) on___x(a Token) int { return 0 }\n",
		"func (p *parser) _onError() {}\n"))
	return pkgConfig{name: "odd-go-declarations", files: map[string]string{"g.lox": lox, "p.go": g.String()}}
}

func allPkgConfigs() []pkgConfig {
	spec := validSpec
	cfgs := []pkgConfig{
		{name: "valid", files: map[string]string{"g.lox": spec, "p.go": validGo}},
		{name: "no-go-file", files: map[string]string{"g.lox": spec}},
		{name: "go-syntax-error", files: map[string]string{"g.lox": spec, "p.go": "package pkg\nfunc {"}},
		{name: "package-clause-only", files: map[string]string{"g.lox": spec, "p.go": "package pkg\n"}},
		{name: "ill-typed", files: map[string]string{"g.lox": spec, "p.go": validGo + "\nvar x int = \"s\"\n"}},
		{name: "no-Token", files: map[string]string{"g.lox": spec, "p.go": strings.Replace(validGo, "type Token struct{}\n", "", 1)}},
		{name: "no-parser-struct", files: map[string]string{"g.lox": spec, "p.go": "package pkg\n\ntype Token struct{}\n"}},
		{name: "two-parser-structs", files: map[string]string{"g.lox": spec, "p.go": validGo + "\ntype other struct{ lox }\n"}},
		{name: "generic-parser-struct", files: map[string]string{"g.lox": spec, "p.go": "package pkg\n\ntype Token struct{}\n\ntype parser[T any] struct{ lox }\n"}},
		{name: "pointer-embedded-lox", files: map[string]string{"g.lox": spec, "p.go": "package pkg\n\ntype Token struct{}\n\ntype parser struct{ *lox }\n"}},
		{name: "only-test-file", files: map[string]string{"g.lox": spec, "p_test.go": validGo}},
		{name: "only-build-tag-excluded", files: map[string]string{"g.lox": spec, "p.go": "//go:build neverever\n\n" + validGo}},
		{name: "outside-any-module", files: map[string]string{"g.lox": spec, "p.go": validGo}, nomod: true},
		{name: "stale-foreign-gen-files", files: map[string]string{"g.lox": spec, "p.go": validGo, "parser.gen.go": "package other\n\nfunc init() { panic(1) }\n", "lexer.gen.go": "garbage(", "base.gen.go": "package pkg\n\nconst EOF = 7\n"}},
		{name: "missing-action", files: map[string]string{"g.lox": spec, "p.go": strings.Replace(validGo, "func (p *parser) on_s__b(n Token) int                { return 1 }\n", "", 1)}},
		{name: "ambiguous-actions", files: map[string]string{"g.lox": spec, "p.go": validGo + "\nfunc (p *parser) on_s__c(n any) int { return 2 }\n"}},
		{name: "orphan-action", files: map[string]string{"g.lox": spec, "p.go": validGo + "\nfunc (p *parser) on_nosuch(n Token) int { return 2 }\n"}},
		{name: "action-two-results", files: map[string]string{"g.lox": spec, "p.go": validGo + "\nfunc (p *parser) on_s__d(n Token, m Token) (int, error) { return 2, nil }\n"}},
		{name: "return-type-conflict", files: map[string]string{"g.lox": spec, "p.go": strings.Replace(validGo, "on_s__b(n Token) int                { return 1 }", "on_s__b(n Token) string { return \"\" }", 1)}},
		{name: "return-types-named-vs-underlying", files: map[string]string{"g.lox": spec, "p.go": "package pkg\n\ntype Token struct{}\n\ntype Value int\n\ntype parser struct{ lox }\n\nfunc (p *parser) on_s__a(l Value, _ Token, r Token) Value { return l + 1 }\nfunc (p *parser) on_s__b(n Token) int                    { return 1 }\n"}},
		{name: "return-types-two-named-same-underlying", files: map[string]string{"g.lox": spec, "p.go": "package pkg\n\ntype Token struct{}\n\ntype (\n\tA struct{ X int }\n\tB struct{ X int }\n)\n\ntype parser struct{ lox }\n\nfunc (p *parser) on_s__a(l A, _ Token, r Token) A { return l }\nfunc (p *parser) on_s__b(n Token) B             { return B{} }\n"}},
		{name: "two-packages-in-dir", files: map[string]string{"g.lox": spec, "p.go": validGo, "q.go": "package otherpkg\n"}},
		{name: "go-file-is-directory-name-clash", files: map[string]string{"g.lox": spec, "p.go": validGo, "README": "x"}},
		{name: "lox-with-conflicts", files: map[string]string{"g.lox": "@lexer\nA='a'\n@parser\n@start e = e A e | A\n", "p.go": validGo}},
		{name: "two-lox-files-overlapping-rules", files: map[string]string{"a.lox": "@lexer\nA = 'a'\n", "b.lox": "@lexer\nB = 'a'\n@parser\n@start s = A\n", "p.go": "package pkg\n\ntype Token struct{}\n\ntype parser struct{ lox }\n\nfunc (p *parser) on_s(a Token) int { return 0 }\n"}},
		{name: "two-lox-files-disjoint", files: map[string]string{"a.lox": "@lexer\nA = 'a'\n", "b.lox": "@lexer\nB = 'b'\n@parser\n@start s = A B\n", "p.go": "package pkg\n\ntype Token struct{}\n\ntype parser struct{ lox }\n\nfunc (p *parser) on_s(a, b Token) int { return 0 }\n"}},
		{name: "empty-lox-file", files: map[string]string{"g.lox": "", "p.go": validGo}},
		{name: "lexer-only-spec", files: map[string]string{"g.lox": "@lexer\nA = 'a'\n", "p.go": "package pkg\n\ntype Token struct{}\n\ntype parser struct{ lox }\n"}},
		{name: "parser-only-spec-undefined-tokens", files: map[string]string{"g.lox": "@parser\n@start s = A\n", "p.go": validGo}},
		{name: "starf-element-rule-without-action", files: map[string]string{"g.lox": "@lexer\nA = 'a'\n@parser\n@start s = x*!\nx = A\n", "p.go": "package pkg\n\ntype Token struct{}\n\ntype parser struct{ lox }\n\nfunc (p *parser) on_s(xs []int) int { return 0 }\n"}},
		{name: "plus-element-rule-without-action", files: map[string]string{"g.lox": "@lexer\nA = 'a'\nB = 'b'\n@parser\n@start s = x+ y? @list(z, B)\nx = A\ny = A\nz = A\n", "p.go": "package pkg\n\ntype Token struct{}\n\ntype parser struct{ lox }\n\nfunc (p *parser) on_s(xs []int, y int, zs []int) int { return 0 }\n"}},
		{name: "start-rule-without-action", files: map[string]string{"g.lox": "@lexer\nA = 'a'\n@parser\n@start s = x*\nx = A\n", "p.go": "package pkg\n\ntype Token struct{}\n\ntype parser struct{ lox }\n\nfunc (p *parser) on_x(a Token) int { return 0 }\n"}},
		{name: "left-zero", files: map[string]string{"g.lox": "@lexer\nA='a'\nB='b'\n@parser\n@start e = e A e @left(0) | B\n", "p.go": validGo}},
		{name: "left-overflow", files: map[string]string{"g.lox": "@lexer\nA='a'\nB='b'\n@parser\n@start e = e A e @left(99999999999999999999) | B\n", "p.go": validGo}},
	}
	return cfgs
}

func TestC12(t *testing.T) {
	run := ev.Start("C12")
	defer run.Finish(t)
	run.Rule = "(i) .lox texts: every grammar file, example and documentation snippet of the repository, generated grammars and lexer specs (all features) and hostile constants, pushed through 1-4 text-level mutations (delete/duplicate/transpose/insert/replace tokens and lines, splice two specs, truncate, numeric extremes in @left(n), 200-3000-term lines, NUL / invalid UTF-8 / surrogate bytes), as 1-2 files, through the in-process front end (parse, analyse, LALR construction, rendering of the --report text) under recover; " +
		"(ii) 30 Go-package configurations (no Go file, syntax error, ill-typed, no Token, no / two / generic / pointer-embedded parser struct, only _test.go, only build-tag-excluded files, directory outside any module, stale foreign *.gen.go, missing / ambiguous / orphan / ill-shaped actions, two packages, overlapping rules in two .lox files, ...) and generated grammars with matching actions, and packages composed from alphabets of odd Go declarations (Token / parser struct / element type / Discard member / action signature / _onBounds shapes around a grammar using every sugar), through the real codegen.Generate with the real `go list`, 1 in 4 also through the lox binary; (iii) thorough tier: native go fuzzing of the front end. " +
		"oracle: success => the three files exist, are non-empty and parse as Go; failure => at least one diagnostic line; a panic is a violation identified by its first frame inside the repository; a run over 30 s is re-run in a subprocess, which is called a hang only when it is still running after 120 s and has itself burnt more than 60 s of CPU time. " +
		"non-trivial = case that gets past the front-end lexer/parser, or a package configuration; distinct by (outcome class, first diagnostic with names and numbers blanked)"
	run.Assumptions = []string{"the in-process 30 s guard only selects cases for the subprocess run; a hang verdict needs 120 s wall-clock and 60 s of CPU time of the lox process itself (4-5 orders of magnitude above normal), so a loaded machine cannot produce one"}
	report := func(c *Case, d string) {
		c.Detail = d
		run.Violation(d, c)
	}
	one := func(c *Case) {
		var d string
		if c.Kind == "text" {
			d = evalText(run, c)
		} else {
			d = evalPkg(run, c, false)
			if d == "" {
				d = evalPkg(run, c, true)
			}
		}
		if d != "" {
			report(c, d)
		}
	}
	if run.Replay != "" {
		var c Case
		if err := ev.LoadReplay(run.Replay, &c); err != nil {
			run.HarnessError("replay: %v", err)
		}
		one(&c)
		return
	}
	for _, f := range run.CanonFiles() {
		var c Case
		if err := ev.LoadReplay(f, &c); err != nil {
			run.HarnessError("canon %s: %v", f, err)
		}
		run.Class("replay-tier")
		one(&c)
	}
	if run.Violations() > 0 {
		return
	}
	corp := corpus()
	run.ClassN("corpus-texts", len(corp))
	loxb.FrontReport = true // the --report text is rendered for every text that reaches table construction
	// (i)
	f := run.Check("texts", run.N(20000, 400000), 8, func(rt *rapid.T, fail ev.FailFunc) {
		text := baseText(rt, corp)
		for i, n := 0, ri(rt, 0, 4, "nmut"); i < n; i++ {
			text = mutate(rt, text, corp[ri(rt, 0, len(corp)-1, "other")])
		}
		c := &Case{Kind: "text", Files: map[string]string{"a.lox": text}}
		if ri(rt, 0, 5, "two") == 0 {
			c.Files["b.lox"] = mutate(rt, baseText(rt, corp), text)
		}
		run.Sample("mutated-text", map[string]any{"files": len(c.Files), "a.lox": clip(text, 400)})
		if d := evalText(run, c); d != "" {
			fail(c, "%s", d)
		}
	})
	if f != nil {
		c, _ := f.Case.(*Case)
		if c == nil {
			run.HarnessError("rapid failure without a case: %s\n%s", f.Msg, f.Log)
		}
		report(c, f.Msg)
		return
	}
	// (ii)
	// every configuration of the finite list, each run; those not sampled through the binary
	// rotate with the seed
	for i, cfg := range allPkgConfigs() {
		c := &Case{Kind: "pkg", Files: cfg.files, NoMod: cfg.nomod, Config: cfg.name}
		run.Class("config:" + cfg.name)
		if i%9 == 0 {
			run.Sample("package-configuration", map[string]any{"name": cfg.name, "files": cfg.files})
		}
		d := evalPkg(run, c, false)
		if d == "" && (run.Thorough() || (i+int(run.Seed))%3 == 0) {
			d = evalPkg(run, c, true)
		}
		if d != "" {
			report(c, cfg.name+": "+d)
			return
		}
	}
	f = run.Check("packages", run.N(150, 2400), 1, func(rt *rapid.T, fail ev.FailFunc) {
		cfg := genPkgConfig(rt)
		if ri(rt, 0, 2, "odd") != 0 {
			cfg = genOddPkg(rt)
		}
		c := &Case{Kind: "pkg", Files: cfg.files, NoMod: cfg.nomod, Config: cfg.name}
		run.Class("config:" + cfg.name)
		d := evalPkg(run, c, false)
		if d == "" && ri(rt, 0, 3, "bin") == 0 {
			d = evalPkg(run, c, true)
		}
		if d != "" {
			fail(c, "%s: %s", cfg.name, d)
		}
	})
	if f != nil {
		c, _ := f.Case.(*Case)
		if c == nil {
			run.HarnessError("rapid failure without a case: %s\n%s", f.Msg, f.Log)
		}
		report(c, f.Msg)
		return
	}
	if run.Thorough() {
		if d, c := nativeFuzz(run, corp); d != "" {
			report(c, d)
		}
	}
}
