package c12

import (
	"bytes"
	"fmt"
	"os"
	"os/exec"
	"path/filepath"
	"strings"
	"testing"

	"github.com/dcaiafa/lox/verifharness/lib/ev"
	"github.com/dcaiafa/lox/verifharness/lib/loxb"
)

// FuzzFrontEnd is the native coverage-guided target (thorough tier; also
// usable by hand: go test -fuzz FuzzFrontEnd ./props/c12). Bytes are split
// into one or two files at the first 0x1E byte.
func FuzzFrontEnd(f *testing.F) {
	for _, s := range corpus() {
		f.Add([]byte(s))
	}
	f.Fuzz(func(t *testing.T, data []byte) {
		files := []loxb.File{{Name: "a.lox", Text: string(data)}}
		if i := bytes.IndexByte(data, 0x1E); i >= 0 {
			files = []loxb.File{{Name: "a.lox", Text: string(data[:i])}, {Name: "b.lox", Text: string(data[i+1:])}}
		}
		lx := loxb.Front(files)
		if lx.Panic != nil {
			t.Fatalf("panic at %s: %v", topRepoFrame(lx.PanicStk), lx.Panic)
		}
		if !lx.OK && strings.TrimSpace(lx.Diag) == "" {
			t.Fatalf("rejected without a diagnostic")
		}
	})
}

// nativeFuzz runs the native fuzzer for a bounded time in a subprocess (the
// test binary itself) and turns a crasher into a replayable case.
func nativeFuzz(run *ev.Run, corp []string) (string, *Case) {
	// the instrumented copy built by ./check (coverage counters); this binary itself as a fallback (blind mutation)
	self := os.Getenv("VERIF_FUZZBIN")
	run.Extra["native_fuzz_coverage_guided"] = self != ""
	if self == "" {
		var err error
		if self, err = os.Executable(); err != nil {
			run.Inconclusive("cannot locate the test binary for native fuzzing")
			return "", nil
		}
	}
	work := filepath.Join(os.Getenv("VERIF_WORK"), "fuzz")
	os.MkdirAll(filepath.Join(work, "cache"), 0o755)
	os.MkdirAll(filepath.Join(work, "run"), 0o755)
	cmd := exec.Command(self, "-test.run", "^$", "-test.fuzz", "^FuzzFrontEnd$", "-test.fuzztime", "240s", "-test.fuzzcachedir", filepath.Join(work, "cache"), "-test.parallel", "12")
	cmd.Dir = filepath.Join(work, "run")
	out, err := cmd.CombinedOutput()
	run.Class("native-fuzz-campaigns")
	for _, l := range strings.Split(string(out), "\n") {
		if strings.Contains(l, "execs:") {
			run.Extra["native_fuzz_last_progress"] = strings.TrimSpace(l)
		}
	}
	if err == nil {
		return "", nil
	}
	// a crasher was written to testdata/fuzz/FuzzFrontEnd/<hash> under the run directory
	ms, _ := filepath.Glob(filepath.Join(work, "run", "testdata", "fuzz", "FuzzFrontEnd", "*"))
	if len(ms) == 0 {
		run.Inconclusive("native fuzzing ended with an error but without a crasher: " + lastLines(string(out), 5))
		return "", nil
	}
	b, _ := os.ReadFile(ms[0])
	data := decodeCorpusFile(string(b))
	c := &Case{Kind: "text", Files: map[string]string{"a.lox": data}}
	if i := strings.IndexByte(data, 0x1E); i >= 0 {
		c.Files = map[string]string{"a.lox": data[:i], "b.lox": data[i+1:]}
	}
	if d := evalText(run, c); d != "" {
		return "native fuzzing: " + d, c
	}
	run.Inconclusive("native fuzzing crasher did not reproduce through the plain evaluator")
	return "", nil
}

func lastLines(s string, n int) string {
	ls := strings.Split(strings.TrimSpace(s), "\n")
	if len(ls) > n {
		ls = ls[len(ls)-n:]
	}
	return strings.Join(ls, " / ")
}

// decodeCorpusFile reads the "go test fuzz v1" format for a single []byte argument.
func decodeCorpusFile(s string) string {
	lines := strings.Split(s, "\n")
	if len(lines) < 2 {
		return ""
	}
	l := strings.TrimSpace(lines[1])
	l = strings.TrimPrefix(l, "[]byte(")
	l = strings.TrimSuffix(l, ")")
	var out string
	if _, err := fmt.Sscanf(l, "%q", &out); err != nil {
		return ""
	}
	return out
}
