// C17 — ill-formed specifications are rejected at the right place; valid ones pass.
package c17

import (
	"fmt"
	"os"
	"path/filepath"
	"regexp"
	"strconv"
	"strings"
	"testing"

	"github.com/dcaiafa/lox/verifharness/lib/ev"
	"github.com/dcaiafa/lox/verifharness/lib/lexgen"
	"github.com/dcaiafa/lox/verifharness/lib/lexm"
	"github.com/dcaiafa/lox/verifharness/lib/loxb"
	"pgregory.net/rapid"
)

// Item is one declaration (or structural line) of a file.
type Item struct {
	Kind  string   // section-lexer section-parser token frag macro external mode-open mode-close rule blank comment
	Name  string   `json:",omitempty"`
	Lines []string // text lines
	Mode  string   `json:",omitempty"` // enclosing mode for lexer declarations
	Lo    int      `json:",omitempty"` // 1-based line span, filled by render
	Hi    int      `json:",omitempty"`
	Tag   string   `json:",omitempty"` // marks declarations involved in the injected fault
}

type File struct {
	Name  string
	Items []*Item
}

type Case struct {
	Files        []*File
	Fault        string // "" = well-formed
	Where        string // placement class
	NoPos        bool   // fault without a particular declaration (no @start)
	UsesExternal bool   `json:",omitempty"`
	Detail       string `json:",omitempty"`
}

func ri(t *rapid.T, lo, hi int, l string) int { return rapid.IntRange(lo, hi).Draw(t, l) }

func (c *Case) render() []loxb.File {
	var out []loxb.File
	for _, f := range c.Files {
		var sb strings.Builder
		line := 1
		for _, it := range f.Items {
			it.Lo = line
			for _, l := range it.Lines {
				sb.WriteString(l + "\n")
				line++
			}
			it.Hi = line - 1
		}
		out = append(out, loxb.File{Name: f.Name, Text: sb.String()})
	}
	return out
}

// ---- well-formed base ---------------------------------------------------------

type base struct {
	c        *Case
	toks     []string // default-mode tokens usable by the parser
	lits     map[string]string
	macros   []string
	modes    []string
	rules    []string
	lexFile  []int // files having a lexer section
	parsFile int
	exts     []string
}

// nameTail draws a tail for a lexical name from the documented shape: letters, digits and single
// underscores after the first character, never ending in an underscore (T0A_8_BOM, T0A1_B2, T0A_2_0).
func nameTail(rt *rapid.T) string {
	const chars = "ABXYZ0123456789"
	var sb strings.Builder
	for i, n := 0, []int{0, 0, 1, 2, 3}[ri(rt, 0, 4, "nparts")]; i < n; i++ {
		if ri(rt, 0, 2, "us") != 0 {
			sb.WriteByte('_')
		}
		for k, m := 0, ri(rt, 1, 3, "plen"); k < m; k++ {
			if ri(rt, 0, 1, "digit") == 0 {
				sb.WriteByte(chars[5+ri(rt, 0, 9, "d")])
			} else {
				sb.WriteByte(chars[ri(rt, 0, 4, "l")])
			}
		}
	}
	return sb.String()
}

func genBase(rt *rapid.T) *base {
	nf := ri(rt, 1, 3, "nfiles")
	c := &Case{}
	b := &base{c: c, lits: map[string]string{}}
	for i := 0; i < nf; i++ {
		c.Files = append(c.Files, &File{Name: fmt.Sprintf("f%d.lox", i)})
	}
	b.parsFile = ri(rt, 0, nf-1, "pfile")
	add := func(f int, it *Item) { c.Files[f].Items = append(c.Files[f].Items, it) }
	letter := 0
	nextCh := func() string {
		s := string(rune('a' + letter))
		letter++
		return s
	}
	for f := 0; f < nf; f++ {
		if f != b.parsFile && ri(rt, 0, 3, "lexhere") == 0 && f != 0 {
			continue
		}
		b.lexFile = append(b.lexFile, f)
		if ri(rt, 0, 2, "cmt") == 0 {
			add(f, &Item{Kind: "comment", Lines: []string{"// file " + c.Files[f].Name, ""}})
		}
		add(f, &Item{Kind: "section-lexer", Lines: []string{"@lexer"}})
		if f == b.lexFile[0] {
			add(f, &Item{Kind: "frag", Lines: []string{"@frag [ \\t\\r\\n]+ @discard"}})
			mn := "DIGIT" + nameTail(rt)
			add(f, &Item{Kind: "macro", Name: mn, Lines: []string{"@macro " + mn + " = [0-9]"}})
			b.macros = append(b.macros, mn)
			if ri(rt, 0, 1, "m2") == 0 {
				add(f, &Item{Kind: "macro", Name: "NUMBER", Lines: []string{"@macro NUMBER = " + mn + "+ ('.' " + mn + "+)?"}})
				b.macros = append(b.macros, "NUMBER")
			}
		}
		nt := ri(rt, 2, 5, "ntok")
		for i := 0; i < nt; i++ {
			name := fmt.Sprintf("T%d%c", f, 'A'+rune(i)) + nameTail(rt)
			ch := nextCh()
			var line string
			switch ri(rt, 0, 3, "tk") {
			case 0:
				line = fmt.Sprintf("%s = '%s'", name, ch)
				b.lits[name] = ch
			case 1:
				line = fmt.Sprintf("%s = '%s' %s", name, ch, b.macros[ri(rt, 0, len(b.macros)-1, "mu")])
			case 2:
				line = fmt.Sprintf("%s = '%s' [A-Z]* \\\n      '!'", name, ch)
			default:
				line = fmt.Sprintf("%s = '%s%s'", name, ch, ch)
				b.lits[name] = ch + ch
			}
			add(f, &Item{Kind: "token", Name: name, Lines: strings.Split(line, "\n")})
			b.toks = append(b.toks, name)
			if ri(rt, 0, 5, "blank") == 0 {
				add(f, &Item{Kind: "blank", Lines: []string{""}})
			}
		}
		if ri(rt, 0, 2, "ext") == 0 {
			en := fmt.Sprintf("EXT%d", f) + nameTail(rt)
			add(f, &Item{Kind: "external", Name: en, Lines: []string{fmt.Sprintf("@external %s EXTB%d", en, f)}})
			b.exts = append(b.exts, en)
		}
		if ri(rt, 0, 1, "mode") == 0 {
			mname := fmt.Sprintf("Mode%d", f)
			ch := nextCh()
			opener := fmt.Sprintf("OPEN%d", f)
			add(f, &Item{Kind: "token", Name: opener, Lines: []string{fmt.Sprintf("%s = '%s' @push_mode(%s)", opener, ch, mname)}})
			add(f, &Item{Kind: "mode-open", Name: mname, Lines: []string{"@mode " + mname + " {"}})
			add(f, &Item{Kind: "frag", Mode: mname, Lines: []string{"  @frag ~[\\n" + ch + "]"}})
			add(f, &Item{Kind: "token", Mode: mname, Name: fmt.Sprintf("CLOSE%d", f), Lines: []string{fmt.Sprintf("  CLOSE%d = '%s' @pop_mode", f, ch)}})
			add(f, &Item{Kind: "mode-close", Lines: []string{"}"}})
			b.modes = append(b.modes, mname)
		}
	}
	// parser section: guarded alternatives => LALR(1)
	f := b.parsFile
	add(f, &Item{Kind: "section-parser", Lines: []string{"", "@parser"}})
	ref := func(tok string) string {
		if l, ok := b.lits[tok]; ok && ri(rt, 0, 2, "alias") == 0 {
			return "'" + l + "'"
		}
		return tok
	}
	perm := rapid.Permutation(b.toks).Draw(rt, "perm")
	k := min(len(perm), 3)
	g := perm[:k]
	add(f, &Item{Kind: "rule", Name: "spec", Lines: []string{"@start spec = item*"}})
	var alts []string
	alts = append(alts, ref(g[0]))
	if k >= 2 {
		alts = append(alts, ref(g[1])+" pair")
	}
	if k >= 3 {
		alts = append(alts, ref(g[2])+" @list(pair, "+ref(g[0])+")? "+ref(g[2]))
	}
	if len(b.exts) > 0 && ri(rt, 0, 1, "useext") == 0 {
		// tokens produced by an external lexer are terminals like any other
		alts = append(alts, b.exts[ri(rt, 0, len(b.exts)-1, "ext")]+" "+ref(g[0]))
		c.UsesExternal = true
	}
	lines := []string{"item = " + alts[0]}
	for _, a := range alts[1:] {
		lines = append(lines, "     | "+a)
	}
	add(f, &Item{Kind: "rule", Name: "item", Lines: lines})
	add(f, &Item{Kind: "rule", Name: "pair", Lines: []string{"pair = " + ref(g[0]) + " " + ref(g[0])}})
	b.rules = []string{"spec", "item", "pair"}
	return b
}

// ---- fault injectors ----------------------------------------------------------

type site struct {
	f  int
	at int // insert position in Items
}

// lexer insertion sites: after some lexer declaration (in default mode or inside a mode)
func (b *base) lexSites(inMode bool) []site {
	var out []site
	for fi, f := range b.c.Files {
		in := false
		depth := false
		for i, it := range f.Items {
			switch it.Kind {
			case "section-lexer":
				in = true
			case "section-parser":
				in = false
			case "mode-open":
				depth = true
			case "mode-close":
				depth = false
				if in && !inMode {
					out = append(out, site{fi, i + 1})
				}
				continue
			}
			if in && depth == inMode && (it.Kind == "token" || it.Kind == "frag" || it.Kind == "macro" || it.Kind == "section-lexer" || it.Kind == "mode-open") {
				out = append(out, site{fi, i + 1})
			}
		}
	}
	return out
}

func (b *base) insert(s site, it *Item) {
	items := b.c.Files[s.f].Items
	b.c.Files[s.f].Items = append(append(append([]*Item(nil), items[:s.at]...), it), items[s.at:]...)
}

func (b *base) parserEnd() site { return site{b.parsFile, len(b.c.Files[b.parsFile].Items)} }

func (b *base) find(kind, name string) *Item {
	for _, f := range b.c.Files {
		for _, it := range f.Items {
			if it.Kind == kind && it.Name == name {
				return it
			}
		}
	}
	return nil
}

var faultKinds = []string{
	"dup-token-token", "dup-macro-token", "dup-mode-token", "dup-rule-token", "dup-external-token", "dup-rule-rule", "dup-mode-macro",
	"bad-name-lower", "bad-name-trailing-underscore", "bad-name-double-underscore", "bad-name-EOF", "bad-name-ERROR", "bad-macro-name", "bad-external-name",
	"undef-token-in-parser", "undef-rule-in-parser", "undef-macro", "undef-mode", "undef-emit", "undef-alias", "undef-in-list",
	"emit-names-macro", "emit-names-mode", "emit-names-rule", "push-names-token", "push-names-macro", "lexer-term-names-token", "lexer-term-names-mode", "parser-term-names-macro", "parser-term-names-mode",
	"ambiguous-alias", "macro-cycle-1", "macro-cycle-2", "macro-cycle-3", "macro-cycle-unused",
	"no-start", "two-start",
	"discard-on-token", "emit-on-token", "two-discard", "two-discard-apart", "two-emit", "discard-and-emit",
	"empty-literal-lexer", "empty-literal-macro", "empty-literal-parser", "reversed-range", "reversed-range-in-macro",
}

func inject(rt *rapid.T, b *base, kind string) bool {
	c := b.c
	c.Fault = kind
	lexAny := func() (site, string) {
		inMode := len(b.modes) > 0 && ri(rt, 0, 1, "inmode") == 0
		ss := b.lexSites(inMode)
		if len(ss) == 0 {
			inMode = false
			ss = b.lexSites(false)
		}
		where := "default-mode"
		if inMode {
			where = "inside-mode"
		}
		s := ss[ri(rt, 0, len(ss)-1, "site")]
		if s.f != 0 {
			where += ",later-file"
		}
		return s, where
	}
	indent := func(where string) string {
		if strings.HasPrefix(where, "inside-mode") {
			return "  "
		}
		return ""
	}
	addLex := func(kindIt, name, text string) {
		s, where := lexAny()
		c.Where = where
		b.insert(s, &Item{Kind: kindIt, Name: name, Lines: []string{indent(where) + text}, Tag: "fault"})
	}
	addRule := func(name, text string) {
		c.Where = "parser-section"
		if b.parsFile != 0 {
			c.Where += ",later-file"
		}
		b.insert(b.parserEnd(), &Item{Kind: "rule", Name: name, Lines: strings.Split(text, "\n"), Tag: "fault"})
	}
	tok := b.toks[ri(rt, 0, len(b.toks)-1, "tok")]
	switch kind {
	case "dup-token-token":
		b.find("token", tok).Tag = "fault"
		addLex("token", tok, tok+" = '~dup~'")
	case "dup-macro-token":
		b.find("token", tok).Tag = "fault"
		addLex("macro", tok, "@macro "+tok+" = 'q'")
	case "dup-mode-token":
		b.find("token", tok).Tag = "fault"
		s := b.lexSites(false)
		st := s[ri(rt, 0, len(s)-1, "site")]
		c.Where = "default-mode"
		b.insert(st, &Item{Kind: "mode-open", Name: tok, Lines: []string{"@mode " + tok + " {", "  @frag '~m~'", "}"}, Tag: "fault"})
	case "dup-rule-token":
		b.find("token", tok).Tag = "fault"
		addRule(tok, tok+" = pair")
	case "dup-external-token":
		b.find("token", tok).Tag = "fault"
		addLex("external", tok, "@external "+tok)
	case "dup-rule-rule":
		b.find("rule", "pair").Tag = "fault"
		addRule("pair", "pair = "+tok)
	case "dup-mode-macro":
		b.find("macro", b.macros[0]).Tag = "fault"
		s := b.lexSites(false)
		st := s[ri(rt, 0, len(s)-1, "site")]
		c.Where = "default-mode"
		b.insert(st, &Item{Kind: "mode-open", Name: b.macros[0], Lines: []string{"@mode " + b.macros[0] + " {", "  @frag '~m~'", "}"}, Tag: "fault"})
	case "bad-name-lower":
		addLex("token", "lower", "lower = '~l~'")
	case "bad-name-trailing-underscore":
		addLex("token", "BAD_", "BAD_ = '~l~'")
	case "bad-name-double-underscore":
		addLex("token", "BA__D", "BA__D = '~l~'")
	case "bad-name-EOF":
		addLex("token", "EOF", "EOF = '~l~'")
	case "bad-name-ERROR":
		addLex("token", "ERROR", "ERROR = '~l~'")
	case "bad-macro-name":
		addLex("macro", "Mixed", "@macro Mixed = 'q'")
	case "bad-external-name":
		addLex("external", "ext", "@external GOOD bad_name")
	case "undef-token-in-parser":
		addRule("extra", "extra = "+tok+" NOSUCH")
	case "undef-rule-in-parser":
		addRule("extra", "extra = "+tok+"\n      | "+tok+" nosuch")
	case "undef-macro":
		addLex("token", "UM", "UM = '~u~' NOSUCHMACRO")
	case "undef-mode":
		addLex("token", "UMD", "UMD = '~u~' @push_mode(NoSuchMode)")
	case "undef-emit":
		addLex("frag", "", "@frag '~u~' @emit(NOSUCHTOK)")
	// a name that exists but denotes the wrong kind of thing
	case "emit-names-macro":
		addLex("frag", "", "@frag '~u~' @emit("+b.macros[0]+")")
	case "emit-names-mode":
		if len(b.modes) == 0 {
			return false
		}
		addLex("frag", "", "@frag '~u~' @emit("+b.modes[ri(rt, 0, len(b.modes)-1, "wkmode")]+")")
	case "emit-names-rule":
		addLex("frag", "", "@frag '~u~' @emit(pair)")
	case "push-names-token":
		addLex("token", "UMD", "UMD = '~u~' @push_mode("+tok+")")
	case "push-names-macro":
		addLex("token", "UMD", "UMD = '~u~' @push_mode("+b.macros[0]+")")
	case "lexer-term-names-token":
		addLex("token", "UM", "UM = '~u~' "+tok)
	case "lexer-term-names-mode":
		if len(b.modes) == 0 {
			return false
		}
		addLex("token", "UM", "UM = '~u~' "+b.modes[ri(rt, 0, len(b.modes)-1, "wkmode")])
	case "parser-term-names-macro":
		addRule("extra", "extra = "+tok+" "+b.macros[0])
	case "parser-term-names-mode":
		if len(b.modes) == 0 {
			return false
		}
		addRule("extra", "extra = "+tok+" "+b.modes[ri(rt, 0, len(b.modes)-1, "wkmode")])
	case "undef-alias":
		addRule("extra", "extra = "+tok+" '~nosuch~'")
	case "undef-in-list":
		addRule("extra", "extra = "+tok+" @list("+tok+", NOSUCH)")
	case "ambiguous-alias":
		var lit string
		var owner string
		for n, l := range b.lits {
			lit, owner = l, n
			break
		}
		if lit == "" {
			return false
		}
		_ = owner
		// same file as the owner, otherwise lox (rightly) reports conflicting actions across files first
		for fi, f := range c.Files {
			for i, it := range f.Items {
				if it.Kind == "token" && it.Name == owner {
					// one, two or three further tokens with the same literal (any number >1 is ambiguous)
					for k, n := 0, ri(rt, 1, 3, "namb"); k < n; k++ {
						b.insert(site{fi, i + 1}, &Item{Kind: "token", Name: fmt.Sprintf("AMB%d", k), Lines: []string{fmt.Sprintf("AMB%d = '%s'", k, lit)}})
					}
				}
			}
		}
		addRule("extra", "extra = "+tok+" '"+lit+"'")
	case "macro-cycle-1":
		addLex("macro", "CYA", "@macro CYA = 'q' CYA?")
		addLex("token", "USECY", "USECY = '~c~' CYA")
		c.Where += ",inside-macro"
	case "macro-cycle-2":
		addLex("macro", "CYA", "@macro CYA = 'q' CYB?")
		addLex("macro", "CYB", "@macro CYB = 'r' | CYA")
		addLex("token", "USECY", "USECY = '~c~' CYB")
		c.Where += ",inside-macro"
	case "macro-cycle-3":
		addLex("macro", "CYA", "@macro CYA = 'q' CYB?")
		addLex("macro", "CYB", "@macro CYB = 'r' | CYC")
		addLex("macro", "CYC", "@macro CYC = ('s' CYA)*")
		addLex("token", "USECY", "USECY = '~c~' CYA")
		c.Where += ",inside-macro"
	case "macro-cycle-unused":
		addLex("macro", "CYA", "@macro CYA = 'q' CYB?")
		addLex("macro", "CYB", "@macro CYB = 'r' | CYA")
		c.Where += ",inside-macro"
	case "no-start":
		it := b.find("rule", "spec")
		it.Lines[0] = strings.Replace(it.Lines[0], "@start ", "", 1)
		c.NoPos = true
		c.Where = "parser-section"
	case "two-start":
		b.find("rule", "spec").Tag = "fault"
		addRule("second", "@start second = "+tok)
	case "discard-on-token":
		addLex("token", "DT", "DT = '~d~' @discard")
	case "emit-on-token":
		addLex("token", "ET", "ET = '~d~' @emit("+tok+")")
	case "two-discard":
		addLex("frag", "", "@frag '~d~' @discard @discard")
	case "two-emit":
		// the same token twice, or two different tokens; mode actions may stand between and around them
		tok2 := b.toks[ri(rt, 0, len(b.toks)-1, "tok2")]
		mid := []string{" ", " ", " @push_mode() "}[ri(rt, 0, 2, "mid")]
		addLex("frag", "", "@frag '~d~' @emit("+tok+")"+mid+"@emit("+tok2+")")
	case "discard-and-emit":
		switch ri(rt, 0, 2, "order") {
		case 0:
			addLex("frag", "", "@frag '~d~' @emit("+tok+") @discard")
		case 1:
			addLex("frag", "", "@frag '~d~' @discard @emit("+tok+")")
		default:
			addLex("frag", "", "@frag '~d~' @discard @push_mode() @emit("+tok+")")
		}
	case "two-discard-apart":
		addLex("frag", "", "@frag '~d~' @discard @push_mode() @discard")
	case "empty-literal-lexer":
		addLex("token", "EL", "EL = '~e~' ''")
	case "empty-literal-macro":
		addLex("macro", "ELM", "@macro ELM = 'q' | ''")
		c.Where += ",inside-macro"
	case "empty-literal-parser":
		addRule("extra", "extra = "+tok+" ''")
	case "reversed-range":
		addLex("token", "RR", "RR = '~r~' "+reversedClass(rt))
	case "reversed-range-in-macro":
		addLex("macro", "RRM", "@macro RRM = [0-9] | "+reversedClass(rt))
		c.Where += ",inside-macro"
	default:
		return false
	}
	return true
}

// reversedClass renders a character class holding one range whose lower bound is above its upper
// bound; the bounds come from the boundary-biased pool (U+0000, U+10FFFF, ...), the range sits among
// well-formed items, and the class may be negated or the right operand of a difference.
func reversedClass(rt *rapid.T) string {
	var lo, hi rune
	for lo <= hi {
		lo = lexgen.Pool[ri(rt, 0, len(lexgen.Pool)-1, "rlo")]
		hi = lexgen.Pool[ri(rt, 0, len(lexgen.Pool)-1, "rhi")]
		if ri(rt, 0, 3, "rzero") == 0 {
			hi = 0
		}
		if lo >= 0xD800 && lo <= 0xDFFF || hi >= 0xD800 && hi <= 0xDFFF {
			lo, hi = 0, 0
		}
	}
	body := lexm.Esc(lo, true) + "-" + lexm.Esc(hi, true)
	if ri(rt, 0, 1, "rpre") == 0 {
		body = "0-9" + body
	}
	if ri(rt, 0, 1, "rpost") == 0 {
		body += "A-Z_"
	}
	cls := "[" + body + "]"
	switch ri(rt, 0, 3, "rform") {
	case 0:
		return "~" + cls
	case 1:
		return "[a-z] - " + cls
	}
	return cls
}

// ---- evaluation -------------------------------------------------------------------

var posLine = regexp.MustCompile(`(?m)^([^\s:]+\.lox):(\d+):(\d+): `)

func evaluate(run *ev.Run, c *Case, real bool) string {
	files := c.render()
	lx := loxb.Front(files)
	text := func() string {
		var sb strings.Builder
		for _, f := range files {
			sb.WriteString("--- " + f.Name + "\n" + f.Text)
		}
		return sb.String()
	}
	if lx.Panic != nil {
		return fmt.Sprintf("lox panicked (%v) on:\n%s", lx.Panic, text())
	}
	if c.Fault == "" {
		if !lx.OK {
			return "well-formed specification rejected: " + lx.Diag + "\n" + text()
		}
		if lx.T.HasConflicts {
			return "" // cannot happen by construction; conflicts are C04's subject
		}
		if real {
			return realRun(c, files, true)
		}
		return ""
	}
	if lx.OK {
		return fmt.Sprintf("ill-formed specification accepted (fault: %s):\n%s", c.Fault, text())
	}
	if strings.TrimSpace(lx.Diag) == "" {
		return fmt.Sprintf("rejected without a diagnostic (fault: %s)", c.Fault)
	}
	if !c.NoPos {
		ok := false
		for _, m := range posLine.FindAllStringSubmatch(lx.Diag, -1) {
			line, _ := strconv.Atoi(m[2])
			for _, f := range c.Files {
				if f.Name != m[1] {
					continue
				}
				for _, it := range f.Items {
					if it.Tag == "fault" && line >= it.Lo && line <= it.Hi {
						ok = true
					}
				}
			}
		}
		if !ok {
			var spans []string
			for _, f := range c.Files {
				for _, it := range f.Items {
					if it.Tag == "fault" {
						spans = append(spans, fmt.Sprintf("%s:%d-%d", f.Name, it.Lo, it.Hi))
					}
				}
			}
			return fmt.Sprintf("fault %s lies in %v but no diagnostic names a position inside it:\n%s\n%s", c.Fault, spans, lx.Diag, text())
		}
	}
	if real {
		return realRun(c, files, false)
	}
	return ""
}

// realRun pushes the same files through the real generator entry point.
func realRun(c *Case, files []loxb.File, wantOK bool) string {
	dir, err := os.MkdirTemp(os.Getenv("VERIF_WORK"), "c17-")
	if err != nil {
		return ""
	}
	defer os.RemoveAll(dir)
	for _, f := range files {
		os.WriteFile(filepath.Join(dir, f.Name), []byte(f.Text), 0o644)
	}
	gr := loxb.Generate(dir, false)
	if gr.Panic != nil {
		return fmt.Sprintf("codegen.Generate panicked: %v", gr.Panic)
	}
	if wantOK {
		// no Go sources in the directory: the spec must pass ParseLox and fail only at the Go stage
		if !strings.Contains(gr.Diag, "package contains no Go sources") {
			return "well-formed specification rejected by codegen.Generate: " + gr.Diag
		}
		return ""
	}
	if gr.OK || strings.Contains(gr.Diag, "package contains no Go sources") {
		return fmt.Sprintf("codegen.Generate lets an ill-formed specification (fault %s) through the specification stage: %s", c.Fault, gr.Diag)
	}
	return ""
}

func TestC17(t *testing.T) {
	run := ev.Start("C17")
	defer run.Finish(t)
	run.Rule = "well-formed specifications of 1-3 files (tokens with literals, macros, continuation lines, @external, modes with push/pop, a guarded LALR(1) parser section using names and literal aliases, comments, blank lines) and single-fault variants: " + strings.Join(faultKinds, ", ") +
		"; faults are placed in the default mode, inside a mode, inside a macro, inside @list, in the first or a later file; " +
		"oracle: well-formed => front end and analysis accept (5% also through codegen.Generate); faulty => rejected without panic, >=1 diagnostic, and (except for a missing @start) some diagnostic line carries file:line inside the span of a declaration involved in the fault (spans known from rendering); " +
		"non-trivial = fault placed outside the first file's default mode (inside a mode / macro / @list / later file / parser section); every fault kind must occur"
	run.Assumptions = []string{"for duplicate names either of the two declarations is an acceptable position", "error and info lines share one format; any positioned line counts"}
	report := func(c *Case, d string) {
		c.Detail = d
		run.Violation(d, c)
	}
	knownAttr := func(c *Case, d string) bool {
		return false
	}
	_ = knownAttr
	if run.Replay != "" {
		var c Case
		if err := ev.LoadReplay(run.Replay, &c); err != nil {
			run.HarnessError("replay: %v", err)
		}
		if d := evaluate(run, &c, true); d != "" {
			report(&c, d)
		}
		return
	}
	for _, f := range run.CanonFiles() {
		var c Case
		if err := ev.LoadReplay(f, &c); err != nil {
			run.HarnessError("canon %s: %v", f, err)
		}
		run.Class("replay-tier")
		if d := evaluate(run, &c, true); d != "" {
			report(&c, d)
		}
	}
	if run.Violations() > 0 {
		return
	}
	n := run.N(6000, 500000)
	f := run.Check("specs", n, 8, func(rt *rapid.T, fail ev.FailFunc) {
		b := genBase(rt)
		c := b.c
		if ri(rt, 0, 9, "wellformed") >= 3 {
			kind := faultKinds[ri(rt, 0, len(faultKinds)-1, "fault")]
			if !inject(rt, b, kind) {
				c.Fault = ""
			}
		}
		run.Eval(1)
		if c.UsesExternal {
			run.Class("parser-uses-@external-token")
		}
		if c.Fault == "" {
			run.Class("well-formed")
		} else {
			run.Class("fault:" + c.Fault)
			if c.Where != "default-mode" {
				files := c.render()
				run.Nontrivial(c.Fault + "|" + files[0].Text + fmt.Sprint(len(files)))
			}
		}
		d := evaluate(run, c, ri(rt, 0, 19, "real") == 0)
		if c.Fault != "" {
			run.Sample(c.Fault, c.render())
		}
		if d != "" {
			fail(c, "%s", d)
		}
	})
	if f != nil {
		c, _ := f.Case.(*Case)
		if c == nil {
			run.HarnessError("rapid failure without a case: %s\n%s", f.Msg, f.Log)
		}
		report(c, f.Msg)
		return
	}
	for _, k := range faultKinds {
		run.RequireClass("fault:"+k, 5)
	}
	run.RequireClass("well-formed", int64(n/10))
}
