// Prototype GOPACKAGESDRIVER: answers go/packages queries for import-free
// packages in the current directory without running `go list`.
package main

import (
	"encoding/json"
	"go/parser"
	"go/token"
	"os"
	"path/filepath"
	"sort"
	"strings"
)

type request struct {
	Overlay map[string][]byte `json:"overlay"`
}

type pkg struct {
	ID              string
	Name            string
	PkgPath         string
	GoFiles         []string
	CompiledGoFiles []string
}

type response struct {
	NotHandled bool
	Compiler   string
	Arch       string
	Roots      []string `json:",omitempty"`
	Packages   []*pkg
	GoVersion  int
}

func notHandled() {
	json.NewEncoder(os.Stdout).Encode(response{NotHandled: true})
	os.Exit(0)
}

func main() {
	var req request
	if err := json.NewDecoder(os.Stdin).Decode(&req); err != nil {
		notHandled()
	}
	if len(os.Args) != 2 || os.Args[1] != "." {
		notHandled()
	}
	dir, err := os.Getwd()
	if err != nil {
		notHandled()
	}
	files := map[string]bool{}
	ents, _ := os.ReadDir(dir)
	for _, e := range ents {
		n := e.Name()
		if !e.IsDir() && strings.HasSuffix(n, ".go") && !strings.HasSuffix(n, "_test.go") {
			files[filepath.Join(dir, n)] = true
		}
	}
	for p := range req.Overlay {
		if !filepath.IsAbs(p) {
			p = filepath.Join(dir, p)
		}
		if filepath.Dir(p) == dir {
			files[p] = true
		}
	}
	var list []string
	for f := range files {
		list = append(list, f)
	}
	sort.Strings(list)
	fset := token.NewFileSet()
	name := ""
	for _, f := range list {
		var src any
		if b, ok := req.Overlay[f]; ok {
			src = b
		}
		af, err := parser.ParseFile(fset, f, src, parser.ImportsOnly)
		if err != nil || len(af.Imports) > 0 || len(af.Comments) > 0 && false {
			notHandled()
		}
		if name != "" && af.Name.Name != name {
			notHandled()
		}
		name = af.Name.Name
	}
	if name == "" {
		notHandled()
	}
	// Import path: module path from the nearest go.mod + relative dir.
	modDir := dir
	for {
		if _, err := os.Stat(filepath.Join(modDir, "go.mod")); err == nil {
			break
		}
		up := filepath.Dir(modDir)
		if up == modDir {
			notHandled()
		}
		modDir = up
	}
	mod, _ := os.ReadFile(filepath.Join(modDir, "go.mod"))
	modPath := ""
	for _, l := range strings.Split(string(mod), "\n") {
		if strings.HasPrefix(l, "module ") {
			modPath = strings.TrimSpace(strings.TrimPrefix(l, "module "))
		}
	}
	rel, _ := filepath.Rel(modDir, dir)
	pp := modPath
	if rel != "." {
		pp = modPath + "/" + filepath.ToSlash(rel)
	}
	json.NewEncoder(os.Stdout).Encode(response{
		Compiler: "gc", Arch: "amd64", Roots: []string{pp}, GoVersion: 23,
		Packages: []*pkg{{ID: pp, Name: name, PkgPath: pp, GoFiles: list, CompiledGoFiles: list}},
	})
}
