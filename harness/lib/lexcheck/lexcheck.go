// Package lexcheck is shared by C02 (longest viable match, earliest rule) and
// C07 (mode stack, every action takes effect): the compiled state machine,
// driven by the real simplelexer, must produce the reference token stream up to
// and including the first lexical error.
package lexcheck

import (
	"fmt"
	"strings"

	"github.com/dcaiafa/lox/verifharness/lib/ev"
	"github.com/dcaiafa/lox/verifharness/lib/lbatch"
	"github.com/dcaiafa/lox/verifharness/lib/lexgen"
	"github.com/dcaiafa/lox/verifharness/lib/lexm"
	"github.com/dcaiafa/lox/verifharness/lib/loxb"
	"github.com/dcaiafa/lox/verifharness/lib/shrink"
	"pgregory.net/rapid"
)

type Case struct {
	S      *lexm.Spec
	Inputs [][]byte
	Lox    string `json:",omitempty"`
	Detail string `json:",omitempty"`
}

type Verdict struct {
	Bad    []byte
	Has    bool
	Detail string
	Kind   string
}

func showToks(ts []lexm.Tok) string {
	parts := make([]string, len(ts))
	for i, t := range ts {
		parts[i] = fmt.Sprintf("%s[%d:%d]", t.Kind, t.Lo, t.Hi)
	}
	return strings.Join(parts, " ")
}

// Classify is called for every evaluated (spec, input); it returns whether the
// case is non-trivial for the property at hand.
type Classify func(run *ev.Run, info lexm.Info, ref []lexm.Tok) bool

// Eval runs all cases in one batch.
// AfterErrors: compare the streams beyond the first lexical error as well (reference: RefLexer.LexOn).
// C07 sets it: what it states about @push_mode / @pop_mode holds after an error too.
var AfterErrors bool

func Eval(run *ev.Run, cases []*Case, count bool, classify Classify) ([]Verdict, error) {
	lc := make([]*lbatch.Case, len(cases))
	for i, c := range cases {
		c.Lox = c.S.Lox()
		lc[i] = &lbatch.Case{Files: map[string]string{"g.lox": c.Lox}, Inputs: c.Inputs}
	}
	outs, err := lbatch.Run(lc, true, false)
	vs := make([]Verdict, len(cases))
	if ge, ok := err.(*lbatch.GenCodeError); ok {
		vs[ge.CaseIndex] = Verdict{Has: true, Kind: "compile", Detail: "lox succeeded but the generated code does not compile: " + ge.Output}
		return vs, nil
	}
	if err != nil {
		return nil, err
	}
	for i, c := range cases {
		o := outs[i]
		if !o.GenOK {
			vs[i] = Verdict{Has: true, Kind: "generate", Detail: "lox rejects a well-formed lexer specification: " + o.GenDiag + o.GenPanic}
			continue
		}
		ref := lexm.NewRef(c.S)
		for k, in := range c.Inputs {
			want, info := ref.Lex(in)
			if AfterErrors {
				want, info = ref.LexOn(in)
			}
			r := o.Results[k]
			if count && info.Errors > 0 {
				run.Class("inputs:lexing-continued-after-an-error")
			}
			if count {
				run.Eval(1)
				if classify != nil && classify(run, info, want) {
					run.Nontrivial(c.Lox + "|" + string(in))
				}
			}
			// lox's stream up to and including the first ERROR / EOF
			var got []lexm.Tok
			for _, t := range r.Toks {
				name := o.Names[t.T]
				switch t.T {
				case 0:
					got = append(got, lexm.Tok{Kind: "EOF", Lo: t.Lo, Hi: t.Lo})
				case 1:
					got = append(got, lexm.Tok{Kind: "ERROR", Lo: t.Lo, Hi: t.Lo})
				default:
					got = append(got, lexm.Tok{Kind: name, Lo: t.Lo, Hi: t.Lo + t.Len})
					if string(t.Str) != string(in[t.Lo:t.Lo+t.Len]) {
						vs[i] = Verdict{Has: true, Bad: in, Kind: "text", Detail: fmt.Sprintf("input %q: token text %q is not the input slice %q", in, t.Str, in[t.Lo:t.Lo+t.Len])}
					}
				}
				if t.T == 0 || t.T == 1 && !AfterErrors {
					break
				}
			}
			if vs[i].Has {
				break
			}
			fail := func(kind string) {
				vs[i] = Verdict{Has: true, Bad: in, Kind: kind, Detail: fmt.Sprintf("input %q (bound=%q panic=%q):\n  lox       %s\n  reference %s", in, r.Bound, r.Panic, showToks(got), showToks(want))}
			}
			if info.PopEmpty {
				// unspecified from the pop on an empty stack on: compare the prefix only
				if len(got) < len(want) || showToks(got[:len(want)]) != showToks(want) {
					fail("stream")
				}
				continue
			}
			if r.Panic != "" {
				fail("panic")
				break
			}
			if showToks(got) != showToks(want) {
				kind := "stream"
				if info.PendingAtEOF && len(got) == len(want) && len(got) > 0 && got[len(got)-1].Kind == "EOF" && showToks(got[:len(got)-1]) == showToks(want[:len(want)-1]) {
					kind = "pending-at-eof"
				}
				fail(kind)
				break
			}
		}
	}
	return vs, nil
}

// SpecReductions lists one-step simplifications of a spec.
func SpecReductions(s *lexm.Spec) []*lexm.Spec {
	var out []*lexm.Spec
	clone := func() *lexm.Spec {
		n := &lexm.Spec{Style: s.Style, Externals: s.Externals}
		for _, m := range s.Macros {
			n.Macros = append(n.Macros, &lexm.Macro{Name: m.Name, E: m.E})
		}
		for _, m := range s.Modes {
			nm := &lexm.Mode{Name: m.Name}
			for _, r := range m.Rules {
				nm.Rules = append(nm.Rules, &lexm.Rule{Name: r.Name, E: r.E, Actions: append([]lexm.Action(nil), r.Actions...)})
			}
			n.Modes = append(n.Modes, nm)
		}
		return n
	}
	valid := func(n *lexm.Spec) bool {
		toks := map[string]bool{}
		modes := map[string]bool{}
		for _, m := range n.Modes {
			modes[m.Name] = true
			if len(m.Rules) == 0 {
				return false
			}
			for _, r := range m.Rules {
				if r.Name != "" {
					toks[r.Name] = true
				}
			}
		}
		for _, m := range n.Modes {
			for _, r := range m.Rules {
				for _, a := range r.Actions {
					if a.Kind == "emit" && !toks[a.Arg] {
						return false
					}
					if a.Kind == "push" && !modes[a.Arg] {
						return false
					}
				}
				if !refsOK(n, r.E) {
					return false
				}
			}
		}
		return true
	}
	add := func(n *lexm.Spec) {
		if valid(n) {
			out = append(out, n)
		}
	}
	// drop a named mode
	for mi := 1; mi < len(s.Modes); mi++ {
		n := clone()
		name := n.Modes[mi].Name
		n.Modes = append(n.Modes[:mi], n.Modes[mi+1:]...)
		for _, m := range n.Modes {
			for _, r := range m.Rules {
				var keep []lexm.Action
				for _, a := range r.Actions {
					if !(a.Kind == "push" && a.Arg == name) {
						keep = append(keep, a)
					}
				}
				r.Actions = keep
			}
		}
		add(n)
	}
	// drop a rule
	for mi, m := range s.Modes {
		for ri := range m.Rules {
			n := clone()
			n.Modes[mi].Rules = append(n.Modes[mi].Rules[:ri], n.Modes[mi].Rules[ri+1:]...)
			add(n)
		}
	}
	// drop an action / simplify an expression
	for mi, m := range s.Modes {
		for ri, r := range m.Rules {
			for ai := range r.Actions {
				n := clone()
				nr := n.Modes[mi].Rules[ri]
				nr.Actions = append(nr.Actions[:ai], nr.Actions[ai+1:]...)
				add(n)
			}
			for _, e := range exprReductions(r.E) {
				n := clone()
				n.Modes[mi].Rules[ri].E = e
				add(n)
			}
		}
	}
	// inline-free: drop unused macros
	for i := range s.Macros {
		n := clone()
		n.Macros = append(n.Macros[:i], n.Macros[i+1:]...)
		add(n)
	}
	return out
}

func refsOK(s *lexm.Spec, e *lexm.Expr) bool {
	if e.Kind == "ref" {
		m := s.MacroByName(e.Ref)
		return m != nil && refsOK(s, m.E)
	}
	for _, k := range e.Kids {
		if !refsOK(s, k) {
			return false
		}
	}
	return true
}

func exprReductions(e *lexm.Expr) []*lexm.Expr {
	var out []*lexm.Expr
	switch e.Kind {
	case "seq", "alt":
		for i := range e.Kids {
			out = append(out, e.Kids[i])
			if len(e.Kids) > 2 {
				n := *e
				n.Kids = append(append([]*lexm.Expr(nil), e.Kids[:i]...), e.Kids[i+1:]...)
				out = append(out, &n)
			}
		}
	case "opt", "star", "plus", "starng", "plusng", "group":
		out = append(out, e.Kids[0])
	case "lit":
		rs := []rune(e.Lit)
		if len(rs) > 1 {
			out = append(out, &lexm.Expr{Kind: "lit", Lit: string(rs[:len(rs)-1])}, &lexm.Expr{Kind: "lit", Lit: string(rs[1:])})
		}
	case "class":
		if e.HasS {
			n := *e
			n.HasS, n.Sub, n.SubN = false, nil, false
			out = append(out, &n)
		}
		if e.Neg {
			n := *e
			n.Neg = false
			out = append(out, &n)
		}
		if len(e.Set) > 1 {
			for i := range e.Set {
				n := *e
				n.Set = append(append([]lexm.Rng(nil), e.Set[:i]...), e.Set[i+1:]...)
				out = append(out, &n)
			}
		}
	}
	for i, k := range e.Kids {
		for _, rk := range exprReductions(k) {
			n := *e
			n.Kids = append([]*lexm.Expr(nil), e.Kids...)
			n.Kids[i] = rk
			out = append(out, &n)
		}
	}
	return out
}

// InDomain reports whether a (reduced) spec still satisfies the preconditions.
func InDomain(s *lexm.Spec, allowNullable bool) bool {
	g := lexm.NewEng()
	for _, m := range s.Modes {
		for _, r := range m.Rules {
			if lexm.HasEmptyClass(s, r.E, 0) {
				return false
			}
			if !allowNullable && g.Nullable(s, r.E) {
				return false
			}
		}
	}
	lx := loxb.Front1(s.Lox())
	return lx.Panic == nil && lx.OK
}

// Shrink minimises a failing case.
func Shrink(run *ev.Run, c *Case, kind string) *Case {
	cands := func(c *Case) []*Case {
		var out []*Case
		in := c.Inputs[0]
		rs := []rune(string(in))
		if len(rs) > 0 && string(rs) == string(in) {
			for i := range rs {
				n := append(append([]rune(nil), rs[:i]...), rs[i+1:]...)
				out = append(out, &Case{S: c.S, Inputs: [][]byte{[]byte(string(n))}})
			}
		} else {
			for i := range in {
				n := append(append([]byte(nil), in[:i]...), in[i+1:]...)
				out = append(out, &Case{S: c.S, Inputs: [][]byte{n}})
			}
		}
		// block deletions (so that whole tokens can go at once)
		for size := len(in) / 2; size >= 2; size /= 2 {
			for lo := 0; lo+size <= len(in); lo += size {
				n := append(append([]byte(nil), in[:lo]...), in[lo+size:]...)
				out = append(out, &Case{S: c.S, Inputs: [][]byte{n}})
			}
		}
		for _, s := range SpecReductions(c.S) {
			out = append(out, &Case{S: s, Inputs: c.Inputs})
		}
		return out
	}
	failing := func(cs []*Case) []bool {
		res := make([]bool, len(cs))
		var keep []*Case
		var idx []int
		for i, c := range cs {
			if InDomain(c.S, false) {
				keep = append(keep, c)
				idx = append(idx, i)
			}
		}
		if len(keep) == 0 {
			return res
		}
		vs, err := Eval(run, keep, false, nil)
		if err != nil {
			return res
		}
		for k, v := range vs {
			res[idx[k]] = v.Has && v.Kind == kind
		}
		return res
	}
	return shrink.Greedy(c, cands, failing, 16)
}

// KnownAttr lets a property attribute failure kinds to listed known findings.
type KnownAttr func(v Verdict) (id string, ok bool)

// RunCheck is the common test body.
func RunCheck(run *ev.Run, o lexgen.Opts, nQuick, nThorough, nInputs int, classify Classify, known KnownAttr) {
	report := func(c *Case, detail string) {
		c.Detail = detail
		run.Violation(detail, c)
	}
	handle := func(c *Case, v Verdict, doShrink bool) bool {
		if !v.Has {
			return false
		}
		if known != nil {
			if id, ok := known(v); ok && run.Known(id) {
				run.KnownHit(id, v.Kind)
				return false
			}
		}
		fc := &Case{S: c.S, Inputs: c.Inputs, Lox: c.Lox}
		detail := v.Detail
		if doShrink && v.Bad != nil {
			fc.Inputs = [][]byte{v.Bad}
			fc = Shrink(run, fc, v.Kind)
			if v2, err := Eval(run, []*Case{fc}, false, nil); err == nil && v2[0].Has {
				detail = v2[0].Detail
			}
		}
		report(fc, detail)
		return true
	}
	one := func(c *Case) {
		vs, err := Eval(run, []*Case{c}, true, classify)
		if err != nil {
			run.HarnessError("%v", err)
		}
		handle(c, vs[0], false)
	}
	if run.Replay != "" {
		var c Case
		if err := ev.LoadReplay(run.Replay, &c); err != nil {
			run.HarnessError("replay: %v", err)
		}
		one(&c)
		return
	}
	for _, f := range run.CanonFiles() {
		var c Case
		if err := ev.LoadReplay(f, &c); err != nil {
			run.HarnessError("canon %s: %v", f, err)
		}
		run.Class("replay-tier")
		one(&c)
	}
	if run.Violations() > 0 {
		return
	}
	n := run.N(nQuick, nThorough)
	const batch = 80
	for done := 0; done < n; done += batch {
		var cases []*Case
		want := min(batch, n-done)
		fc := run.Check(fmt.Sprintf("collect-%d", done), want, 1, func(rt *rapid.T, fail ev.FailFunc) {
			s := lexgen.GenSpec(rt, o)
			cases = append(cases, &Case{S: s, Inputs: lexgen.Texts(rt, s, nInputs)})
		})
		if fc != nil {
			run.HarnessError("collect failed: %s\n%s", fc.Msg, fc.Log)
		}
		vs, err := Eval(run, cases, true, classify)
		if err != nil {
			run.HarnessError("%v", err)
		}
		for i, c := range cases {
			run.Class("specs")
			if len(c.S.Modes) > 1 {
				run.Class("specs-with-modes")
			}
			if i < 2 && len(c.Inputs) > 0 {
				run.Sample("case", map[string]any{"lox": c.Lox, "inputs": len(c.Inputs), "first": string(c.Inputs[0])})
			}
			if handle(c, vs[i], true) {
				return
			}
		}
	}
}
