// Package pbatch runs batches of (grammar, token sequences) through the real
// generator, the Go compiler and the generated parse() (layer C).
package pbatch

import (
	"encoding/json"
	"fmt"
	"os"
	"regexp"
	"strings"
	"time"

	"github.com/dcaiafa/lox/verifharness/lib/cfgm"
	"github.com/dcaiafa/lox/verifharness/lib/forge"
	"github.com/dcaiafa/lox/verifharness/lib/pgo"
)

type Case struct {
	G            *cfgm.G
	Inputs       [][]int
	Limits       []int // per input step bound; nil = default 2000+200*len
	OnBounds     bool
	NamedSlices  bool
	BoundsLayout int
	NilMask      uint64
	TokMask      uint64
	AnyMask      uint64
	RecoverLA    bool
	PtrDiscard   bool
	LoxText      string // filled in
	GoText       string // filled in
}

type Out struct {
	GenOK    bool
	GenDiag  string
	GenPanic string
	Results  []pgo.Result
	Files    map[string]string
}

// HarnessError is returned for failures that say nothing about lox.
type HarnessError struct{ Msg string }

func (e *HarnessError) Error() string { return e.Msg }

// GenCodeError: the generated files do not compile with the (valid) package.
type GenCodeError struct {
	CaseIndex int
	Output    string
}

func (e *GenCodeError) Error() string {
	return fmt.Sprintf("generated code of case %d does not compile:\n%s", e.CaseIndex, e.Output)
}

var genFileErr = regexp.MustCompile(`(c\d{4})/(base|lexer|parser)\.gen\.go:\d+`)
var anyFileErr = regexp.MustCompile(`(c\d{4})/[a-z_.]+\.go:\d+`)

func DefaultLimit(n int) int { return 2000 + 200*n }

// Run evaluates all cases in one build. fast selects the package-metadata fast path.
func Run(cases []*Case, fast bool) ([]*Out, error) {
	b, err := forge.NewBatch()
	if err != nil {
		return nil, &HarnessError{err.Error()}
	}
	defer b.Close()
	forge.FastLoader(fast)
	for _, c := range cases {
		c.LoxText = c.G.Lox()
		c.GoText = pgo.UserGo(c.G, pgo.Opts{OnBounds: c.OnBounds, NamedSlices: c.NamedSlices, BoundsLayout: c.BoundsLayout, NilMask: c.NilMask, TokMask: c.TokMask, AnyMask: c.AnyMask, RecoverLA: c.RecoverLA, PtrDiscard: c.PtrDiscard})
		files := c.G.LoxFiles()
		files["user.go"] = c.GoText
		if _, err := b.Add(files); err != nil {
			return nil, &HarnessError{err.Error()}
		}
	}
	b.Generate(8, false)
	outs := make([]*Out, len(cases))
	var names []string
	type job struct {
		Inputs [][]int
		Limits []int
	}
	jobs := map[string]job{}
	for i, p := range b.Pkgs {
		o := &Out{GenOK: p.Gen.OK, GenDiag: p.Gen.Diag, Files: p.Out}
		if p.Gen.Panic != nil {
			o.GenPanic = fmt.Sprint(p.Gen.Panic)
		}
		outs[i] = o
		if p.Gen.OK {
			names = append(names, p.Name)
			c := cases[i]
			lim := c.Limits
			if lim == nil {
				lim = make([]int, len(c.Inputs))
				for k, w := range c.Inputs {
					lim[k] = DefaultLimit(len(w))
				}
			}
			in := c.Inputs
			if in == nil {
				in = [][]int{}
			}
			jobs[p.Name] = job{Inputs: in, Limits: lim}
		}
	}
	if len(names) == 0 {
		return outs, nil
	}
	bin, err := b.Build(pgo.ParserDriverMain(names), false)
	if err != nil {
		be, _ := err.(*forge.BuildError)
		if be == nil {
			return nil, &HarnessError{err.Error()}
		}
		if m := genFileErr.FindStringSubmatch(be.Output); m != nil {
			// make sure no error points at harness-written files
			for _, l := range strings.Split(be.Output, "\n") {
				if mm := anyFileErr.FindStringSubmatch(l); mm != nil && !strings.Contains(l, ".gen.go") {
					return nil, &HarnessError{"harness-written Go does not compile:\n" + be.Output}
				}
			}
			var idx int
			fmt.Sscanf(m[1], "c%d", &idx)
			return outs, &GenCodeError{CaseIndex: idx, Output: be.Output}
		}
		return nil, &HarnessError{"driver build failed:\n" + be.Output}
	}
	stdin, _ := json.Marshal(jobs)
	rr := forge.Run(bin, stdin, 20*time.Minute, "GOMAXPROCS=2")
	noteSlow(rr.Stderr)
	if rr.Err != nil {
		return nil, &HarnessError{fmt.Sprintf("driver run failed: %v\nstderr: %s", rr.Err, tail(string(rr.Stderr), 2000))}
	}
	var res map[string][]pgo.Result
	if err := json.Unmarshal(rr.Stdout, &res); err != nil {
		return nil, &HarnessError{"driver output: " + err.Error()}
	}
	for i, p := range b.Pkgs {
		if p.Gen.OK {
			outs[i].Results = res[p.Name]
			if len(outs[i].Results) != len(cases[i].Inputs) {
				return nil, &HarnessError{fmt.Sprintf("driver returned %d results for %d inputs", len(outs[i].Results), len(cases[i].Inputs))}
			}
		}
	}
	// Parses that hit the CPU-time guard: the first one of a package is run once more in a
	// process of its own, and only if it is guarded out again does it keep its TIMEOUT (the other
	// unevaluated inputs of that package are then marked Skipped). Inputs skipped for other
	// reasons (too many spinning goroutines in the driver) are run now, package by package.
	single := func(name string, w []int, lim int) (pgo.Result, error) {
		stdin, _ := json.Marshal(map[string]job{name: {Inputs: [][]int{w}, Limits: []int{lim}}})
		rr := forge.Run(bin, stdin, 20*time.Minute, "GOMAXPROCS=2", "VERIF_GUARD_CPU=120")
		noteSlow(rr.Stderr)
		var r1 map[string][]pgo.Result
		if rr.Err != nil || json.Unmarshal(rr.Stdout, &r1) != nil || len(r1[name]) != 1 {
			return pgo.Result{}, fmt.Errorf("re-run of a guarded-out parse failed: %v", rr.Err)
		}
		return r1[name][0], nil
	}
	for i, p := range b.Pkgs {
		rs := outs[i].Results
		for pass := 0; pass < 3; pass++ {
			first := -1
			pending := false
			for k, r := range rs {
				if r.Panic == "TIMEOUT" && first < 0 {
					first = k
				}
				if r.Panic == "SKIPPED" || r.Panic == "STALLED" {
					pending = true
				}
			}
			if first < 0 && !pending {
				break
			}
			j := jobs[p.Name]
			if first >= 0 {
				nr, err := single(p.Name, j.Inputs[first], j.Limits[first])
				if err != nil {
					return nil, &HarnessError{err.Error()}
				}
				if nr.Panic == "TIMEOUT" {
					nr.Panic = "TIMEOUT (twice, in two processes)"
					rs[first] = nr
					for k := range rs {
						if rs[k].Panic == "SKIPPED" || rs[k].Panic == "TIMEOUT" || rs[k].Panic == "STALLED" {
							rs[k] = pgo.Result{Skipped: true}
						}
					}
					break
				}
				rs[first] = nr // finished this time (or STALLED: settled by the re-run below, else skipped)
			}
			// run what is still unevaluated for this package in one fresh process
			var idx []int
			var in [][]int
			var lim []int
			for k, r := range rs {
				if r.Panic == "SKIPPED" || r.Panic == "TIMEOUT" || r.Panic == "STALLED" {
					idx, in, lim = append(idx, k), append(in, j.Inputs[k]), append(lim, j.Limits[k])
				}
			}
			if len(idx) == 0 {
				break
			}
			stdin, _ := json.Marshal(map[string]job{p.Name: {Inputs: in, Limits: lim}})
			rr := forge.Run(bin, stdin, 20*time.Minute, "GOMAXPROCS=2")
			noteSlow(rr.Stderr)
			var r2 map[string][]pgo.Result
			if rr.Err != nil || json.Unmarshal(rr.Stdout, &r2) != nil || len(r2[p.Name]) != len(idx) {
				return nil, &HarnessError{fmt.Sprintf("re-run of skipped inputs failed: %v", rr.Err)}
			}
			for n, k := range idx {
				rs[k] = r2[p.Name][n]
			}
		}
		for k := range rs {
			if rs[k].Panic == "SKIPPED" || rs[k].Panic == "TIMEOUT" || rs[k].Panic == "STALLED" {
				rs[k] = pgo.Result{Skipped: true} // could not be settled within three passes
			}
		}
	}
	return outs, nil
}

func tail(s string, n int) string {
	if len(s) > n {
		return s[len(s)-n:]
	}
	return s
}

// SlowParses collects the driver's SLOW-PARSE lines (parses that needed more than a second of
// CPU time); checks may put them into their evidence.
var SlowParses []string

func noteSlow(stderr []byte) {
	for _, l := range strings.Split(string(stderr), "\n") {
		if strings.HasPrefix(l, "SLOW-PARSE") && len(SlowParses) < 20 {
			SlowParses = append(SlowParses, l)
			if os.Getenv("VERIF_VERBOSE") != "" {
				fmt.Fprintln(os.Stderr, l)
			}
		}
	}
}
