// Package tabdec reads the integer tables back from the text of generated
// files and interprets them by their documented row format (layer B).
package tabdec

import (
	"fmt"
	"go/ast"
	"go/constant"
	"go/parser"
	"go/token"
	"go/types"
	"math"
	"sort"
	"strconv"
)

// IntArrays extracts every package-level `var name = []T{ints...}` of a Go file.
func IntArrays(src string) (map[string][]int64, error) {
	fset := token.NewFileSet()
	f, err := parser.ParseFile(fset, "gen.go", src, 0)
	if err != nil {
		return nil, err
	}
	out := map[string][]int64{}
	for _, d := range f.Decls {
		gd, ok := d.(*ast.GenDecl)
		if !ok || gd.Tok != token.VAR {
			continue
		}
		for _, sp := range gd.Specs {
			vs := sp.(*ast.ValueSpec)
			if len(vs.Names) != 1 || len(vs.Values) != 1 {
				continue
			}
			cl, ok := vs.Values[0].(*ast.CompositeLit)
			if !ok {
				continue
			}
			if _, ok := cl.Type.(*ast.ArrayType); !ok {
				continue
			}
			var xs []int64
			good := true
			for _, e := range cl.Elts {
				v, ok := intLit(e)
				if !ok {
					good = false
					break
				}
				xs = append(xs, v)
			}
			if good {
				out[vs.Names[0].Name] = xs
			}
		}
	}
	return out, nil
}

// IdentLists extracts every package-level `var name = []T{ident, ident, ...}` of a Go file
// (the positional list of mode tables, for instance).
func IdentLists(src string) (map[string][]string, error) {
	fset := token.NewFileSet()
	f, err := parser.ParseFile(fset, "gen.go", src, 0)
	if err != nil {
		return nil, err
	}
	out := map[string][]string{}
	for _, d := range f.Decls {
		gd, ok := d.(*ast.GenDecl)
		if !ok || gd.Tok != token.VAR {
			continue
		}
		for _, sp := range gd.Specs {
			vs := sp.(*ast.ValueSpec)
			if len(vs.Names) != 1 || len(vs.Values) != 1 {
				continue
			}
			cl, ok := vs.Values[0].(*ast.CompositeLit)
			if !ok || len(cl.Elts) == 0 {
				continue
			}
			var xs []string
			for _, e := range cl.Elts {
				id, ok := e.(*ast.Ident)
				if !ok {
					xs = nil
					break
				}
				xs = append(xs, id.Name)
			}
			if xs != nil {
				out[vs.Names[0].Name] = xs
			}
		}
	}
	return out, nil
}

func intLit(e ast.Expr) (int64, bool) {
	switch e := e.(type) {
	case *ast.BasicLit:
		if e.Kind != token.INT {
			return 0, false
		}
		v, err := strconv.ParseInt(e.Value, 0, 64)
		return v, err == nil
	case *ast.UnaryExpr:
		if e.Op == token.SUB {
			v, ok := intLit(e.X)
			return -v, ok
		}
	}
	return 0, false
}

// Consts evaluates the package-level integer constants of base.gen.go (in
// declaration order) and returns the _TokenToString switch as value -> string.
func Consts(src string) (names []string, values map[string]int64, toString map[int64]string, err error) {
	fset := token.NewFileSet()
	f, err := parser.ParseFile(fset, "base.gen.go", src, 0)
	if err != nil {
		return nil, nil, nil, err
	}
	conf := types.Config{Error: func(error) {}}
	info := &types.Info{Defs: map[*ast.Ident]types.Object{}, Types: map[ast.Expr]types.TypeAndValue{}}
	conf.Check("p", fset, []*ast.File{f}, info)
	values = map[string]int64{}
	for _, d := range f.Decls {
		gd, ok := d.(*ast.GenDecl)
		if !ok || gd.Tok != token.CONST {
			continue
		}
		for _, sp := range gd.Specs {
			vs := sp.(*ast.ValueSpec)
			for _, n := range vs.Names {
				if c, ok := info.Defs[n].(*types.Const); ok && c.Val().Kind() == constant.Int {
					v, _ := constant.Int64Val(c.Val())
					names = append(names, n.Name)
					values[n.Name] = v
				}
			}
		}
	}
	toString = map[int64]string{}
	for _, d := range f.Decls {
		fd, ok := d.(*ast.FuncDecl)
		if !ok || fd.Name.Name != "_TokenToString" || fd.Body == nil {
			continue
		}
		ast.Inspect(fd.Body, func(n ast.Node) bool {
			cc, ok := n.(*ast.CaseClause)
			if !ok || len(cc.Body) != 1 {
				return true
			}
			ret, ok := cc.Body[0].(*ast.ReturnStmt)
			if !ok || len(ret.Results) != 1 {
				return true
			}
			lit, ok := ret.Results[0].(*ast.BasicLit)
			if !ok || lit.Kind != token.STRING {
				return true
			}
			s, _ := strconv.Unquote(lit.Value)
			if cc.List == nil {
				toString[math.MinInt64] = s // default
				return true
			}
			for _, e := range cc.List {
				if tv, ok := info.Types[e]; ok && tv.Value != nil {
					v, _ := constant.Int64Val(tv.Value)
					toString[v] = s
				}
			}
			return true
		})
	}
	return
}

// ---------------------------------------------------------------------------
// Row-compressed tables (codegen/table.go format): the first maxIndex+1 cells
// are offsets (or -1), each row is length-prefixed.

type Rows struct {
	N      int     // number of indices
	Offset []int64 // per index
	Row    [][]int64
}

// DecodeRows splits a table into rows, checking every structural invariant the
// property names: indices inside the array, rows length-prefixed, rows reached
// from two indices are the same row.
func DecodeRows(arr []int64, n int) (*Rows, error) {
	if n > len(arr) {
		return nil, fmt.Errorf("table has %d cells, need %d index cells", len(arr), n)
	}
	r := &Rows{N: n, Offset: arr[:n], Row: make([][]int64, n)}
	for i := 0; i < n; i++ {
		off := arr[i]
		if off == -1 {
			continue
		}
		if off < int64(n) || off >= int64(len(arr)) {
			return nil, fmt.Errorf("index %d: offset %d outside the row area [%d,%d)", i, off, n, len(arr))
		}
		l := arr[off]
		if l < 0 || off+1+l > int64(len(arr)) {
			return nil, fmt.Errorf("index %d: row at %d has length %d, beyond the table", i, off, l)
		}
		r.Row[i] = arr[off+1 : off+1+l]
	}
	return r, nil
}

// CheckLayout verifies that rows are stored back to back without overlap. It is
// stricter than the property (a generator could legitimately share storage
// otherwise) and therefore only reported as an observation, never a violation.
func (r *Rows) CheckLayout(total int) error {
	type span struct{ lo, hi int64 }
	seen := map[int64]int64{}
	var spans []span
	for i := 0; i < r.N; i++ {
		off := r.Offset[i]
		if off == -1 {
			continue
		}
		l := int64(len(r.Row[i]))
		if pl, ok := seen[off]; ok {
			if pl != l {
				return fmt.Errorf("offset %d read with two lengths", off)
			}
			continue
		}
		seen[off] = l
		spans = append(spans, span{off, off + 1 + l})
	}
	sort.Slice(spans, func(i, j int) bool { return spans[i].lo < spans[j].lo })
	next := int64(r.N)
	for _, s := range spans {
		if s.lo != next {
			return fmt.Errorf("row storage has a gap or overlap at %d (expected a row to start at %d)", s.lo, next)
		}
		next = s.hi
	}
	if next != int64(total) {
		return fmt.Errorf("row storage ends at %d, table has %d cells", next, total)
	}
	return nil
}

// ---------------------------------------------------------------------------
// Lexer mode tables

type LexTrans struct {
	Lo, Hi rune
	To     int
}

type LexAct struct {
	Type  int // 1 push, 2 pop, 3 accept, 4 discard, 5 accum
	Param int
}

type LexState struct {
	Flags uint32
	Trans []LexTrans
	Acts  []LexAct
}

type LexMode struct {
	States []*LexState
}

// DecodeLexMode decodes one _lexerModeN table. The number of states is the
// value of the first offset cell (rows start right after the index area).
func DecodeLexMode(arr []int64) (*LexMode, error) {
	if len(arr) == 0 {
		return nil, fmt.Errorf("empty mode table")
	}
	n := int(arr[0])
	if n <= 0 || n > len(arr) {
		return nil, fmt.Errorf("cannot determine the number of states (first cell %d)", arr[0])
	}
	rows, err := DecodeRows(arr, n)
	if err != nil {
		return nil, err
	}
	m := &LexMode{}
	for i := 0; i < n; i++ {
		row := rows.Row[i]
		if rows.Offset[i] == -1 {
			return nil, fmt.Errorf("state %d has no row", i)
		}
		if len(row) < 2 {
			return nil, fmt.Errorf("state %d: row shorter than the fixed header", i)
		}
		st := &LexState{Flags: uint32(row[0])}
		gn := int(row[1])
		if gn < 0 || 2+3*gn > len(row) {
			return nil, fmt.Errorf("state %d: %d transitions do not fit in a row of %d cells", i, gn, len(row))
		}
		for k := 0; k < gn; k++ {
			lo, hi, to := row[2+3*k], row[3+3*k], row[4+3*k]
			if lo > hi {
				return nil, fmt.Errorf("state %d: range %d-%d has lo > hi", i, lo, hi)
			}
			if lo < 0 || hi > 0x10FFFF {
				return nil, fmt.Errorf("state %d: range %d-%d outside U+0000..U+10FFFF", i, lo, hi)
			}
			if to < 0 || to >= int64(n) {
				return nil, fmt.Errorf("state %d: transition to state %d of %d", i, to, n)
			}
			if k > 0 && lo <= int64(st.Trans[k-1].Hi) {
				return nil, fmt.Errorf("state %d: ranges not sorted and disjoint (%d-%d after %d-%d)", i, lo, hi, st.Trans[k-1].Lo, st.Trans[k-1].Hi)
			}
			st.Trans = append(st.Trans, LexTrans{rune(lo), rune(hi), int(to)})
		}
		rest := row[2+3*gn:]
		if len(rest)%2 != 0 {
			return nil, fmt.Errorf("state %d: action area has odd length %d", i, len(rest))
		}
		for k := 0; k < len(rest); k += 2 {
			ty := int(rest[k])
			if ty < 1 || ty > 5 {
				return nil, fmt.Errorf("state %d: unknown action type %d", i, ty)
			}
			st.Acts = append(st.Acts, LexAct{ty, int(rest[k+1])})
		}
		m.States = append(m.States, st)
	}
	return m, nil
}

// Next follows the transition on c (documented semantics: binary search over
// sorted disjoint ranges, skipped in a non-greedy accepting state).
func (s *LexState) Next(c rune) (int, bool) {
	if s.Flags&1 != 0 {
		return 0, false
	}
	i := sort.Search(len(s.Trans), func(i int) bool { return s.Trans[i].Hi >= c })
	if i < len(s.Trans) && s.Trans[i].Lo <= c {
		return s.Trans[i].To, true
	}
	return 0, false
}

// ---------------------------------------------------------------------------
// Parser tables

type ParserTables struct {
	Rules      []int64
	TermCounts []int64
	Actions    []map[int64]int64 // per state: terminal -> action (>=0 shift, <0 reduce -prod, MaxInt32 accept)
	Goto       []map[int64]int64 // per state: rule -> state
}

const Accept = math.MaxInt32

func DecodeParser(arrs map[string][]int64) (*ParserTables, error) {
	pt := &ParserTables{Rules: arrs["_rules"], TermCounts: arrs["_termCounts"]}
	act, gt := arrs["_actions"], arrs["_goto"]
	if act == nil || gt == nil || pt.Rules == nil || pt.TermCounts == nil {
		return nil, fmt.Errorf("parser tables missing")
	}
	if len(pt.Rules) != len(pt.TermCounts) {
		return nil, fmt.Errorf("_rules has %d entries, _termCounts %d", len(pt.Rules), len(pt.TermCounts))
	}
	if len(act) == 0 {
		return nil, fmt.Errorf("empty _actions")
	}
	n := int(act[0])
	ra, err := DecodeRows(act, n)
	if err != nil {
		return nil, fmt.Errorf("_actions: %v", err)
	}
	rg, err := DecodeRows(gt, n)
	if err != nil {
		return nil, fmt.Errorf("_goto: %v", err)
	}
	for i := 0; i < n; i++ {
		am, gm := map[int64]int64{}, map[int64]int64{}
		if ra.Offset[i] == -1 || rg.Offset[i] == -1 {
			return nil, fmt.Errorf("state %d has no row", i)
		}
		if len(ra.Row[i])%2 != 0 || len(rg.Row[i])%2 != 0 {
			return nil, fmt.Errorf("state %d: row of odd length", i)
		}
		for k := 0; k < len(ra.Row[i]); k += 2 {
			t, a := ra.Row[i][k], ra.Row[i][k+1]
			if _, dup := am[t]; dup {
				return nil, fmt.Errorf("state %d: terminal %d twice", i, t)
			}
			switch {
			case a == Accept:
			case a >= 0:
				if a >= int64(n) {
					return nil, fmt.Errorf("state %d: shift to state %d of %d", i, a, n)
				}
			default:
				if -a >= int64(len(pt.Rules)) {
					return nil, fmt.Errorf("state %d: reduce by production %d of %d", i, -a, len(pt.Rules))
				}
			}
			am[t] = a
		}
		for k := 0; k < len(rg.Row[i]); k += 2 {
			r, s := rg.Row[i][k], rg.Row[i][k+1]
			if s < 0 || s >= int64(n) {
				return nil, fmt.Errorf("state %d: goto state %d of %d", i, s, n)
			}
			gm[r] = s
		}
		pt.Actions = append(pt.Actions, am)
		pt.Goto = append(pt.Goto, gm)
	}
	return pt, nil
}
