// Package shrink: batch-friendly greedy minimisation for layer-C cases (one
// compile per round instead of one per candidate).
package shrink

// Greedy repeatedly replaces c by the first one-step reduction that still
// fails. failing evaluates a whole slice of candidates at once.
func Greedy[C any](c C, cands func(C) []C, failing func([]C) []bool, maxRounds int) C {
	for round := 0; round < maxRounds; round++ {
		cs := cands(c)
		if len(cs) == 0 {
			return c
		}
		const chunk = 48
		found := false
		for lo := 0; lo < len(cs) && !found; lo += chunk {
			hi := lo + chunk
			if hi > len(cs) {
				hi = len(cs)
			}
			fs := failing(cs[lo:hi])
			for i, f := range fs {
				if f {
					c = cs[lo+i]
					found = true
					break
				}
			}
		}
		if !found {
			return c
		}
	}
	return c
}
