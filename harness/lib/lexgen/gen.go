// Package lexgen: rapid generators for lexer specifications and input texts.
package lexgen

import (
	"fmt"

	. "github.com/dcaiafa/lox/verifharness/lib/lexm"
	"pgregory.net/rapid"
)

// Pool of code points with boundary bias. Surrogates are excluded (a Go string
// cannot carry them).
var Pool = []rune{'a', 'b', 'c', 'd', 'x', 'y', '0', '1', '9', ' ', '-', '\'', ']', '[', '\\', '"', '/', '*', '{', '}', '<', '>', '\n', '\t', '\r',
	0, 0x7F, 0x80, 0xE9, 0x7FF, 0x800, 0xD7FF, 0xE000, 0xFFFD, 0xFFFF, 0x10000, 0x10FFFF}

type Opts struct {
	MaxModes   int  // named modes (0..)
	ModeActs   bool // push/pop actions
	Frags      bool // fragments: discard / accumulate / emit
	Macros     bool
	Nullable   bool // allow rules that match the empty string (C11 only)
	MaxRules   int
	Depth      int
	ShuffleAct bool // write the actions of a rule in any order
	// BigPct: percentage of specs that get 60-160 extra keyword-like literal tokens in the
	// default mode (several hundred DFA states: row offsets and state numbers beyond one byte)
	BigPct int
	// NonGreedy: repetitions may be non-greedy (x*?, x+?), and some rules have the shape
	// "body*? terminator". Only for checks whose oracle does not need the non-greedy semantics.
	NonGreedy bool
	// RepeatPop: a rule may carry @pop_mode twice or three times (the stack can then run empty,
	// which is unspecified: only for checks that stop comparing there, or work on tables).
	RepeatPop bool
}

func ri(t *rapid.T, lo, hi int, l string) int { return rapid.IntRange(lo, hi).Draw(t, l) }

func poolRune(t *rapid.T, extra []rune) rune {
	if len(extra) > 0 && ri(t, 0, 2, "nb") == 0 {
		return extra[ri(t, 0, len(extra)-1, "nbi")]
	}
	if ri(t, 0, 9, "ascii") < 6 {
		return Pool[ri(t, 0, 8, "p")]
	}
	return Pool[ri(t, 0, len(Pool)-1, "p")]
}

// neighbours of endpoints already chosen (boundary bias)
type genState struct {
	ends []rune
	ng   bool // non-greedy repetitions allowed
	rich bool // classes: negation, difference and merging items favoured
}

func (g *genState) note(r rune) {
	for _, d := range []rune{-1, 0, 1} {
		x := r + d
		if x >= 0 && x <= MaxRune && !(x >= 0xD800 && x <= 0xDFFF) {
			g.ends = append(g.ends, x)
		}
	}
	if len(g.ends) > 60 {
		g.ends = g.ends[len(g.ends)-60:]
	}
}

func genRng(t *rapid.T, g *genState) Rng {
	a := poolRune(t, g.ends)
	g.note(a)
	if rapid.Bool().Draw(t, "single") {
		return Rng{Lo: a, Hi: a}
	}
	b := poolRune(t, g.ends)
	g.note(b)
	if a > b {
		a, b = b, a
	}
	return Rng{Lo: a, Hi: b}
}

func genClass(t *rapid.T, g *genState) *Expr {
	for try := 0; ; try++ {
		e := &Expr{Kind: "class", Neg: ri(t, 0, 4, "neg") == 0 || g.rich && ri(t, 0, 1, "neg2") == 0}
		for i, n := 0, ri(t, 1, 3, "n"); i < n; i++ {
			r := genRng(t, g)
			if g.rich && i > 0 && ri(t, 0, 1, "adjacent") == 0 && e.Set[i-1].Hi < MaxRune-4 {
				// an item that touches or repeats its neighbour (items merge when the list is flattened)
				lo := e.Set[i-1].Hi + rune(ri(t, 0, 1, "touch"))
				if hi := lo + rune(ri(t, 0, 2, "w")); hi < 0xD800 || lo > 0xDFFF {
					r = Rng{Lo: lo, Hi: hi} // (never a surrogate: \uD800 is not a code point a spec can name)
				}
			}
			e.Set = append(e.Set, r)
		}
		if ri(t, 0, 4, "diff") == 0 || g.rich && ri(t, 0, 1, "diff2") == 0 {
			e.HasS = true
			e.Sub = []Rng{genRng(t, g)}
			if ri(t, 0, 3, "sub2") == 0 {
				e.Sub = append(e.Sub, genRng(t, g))
			}
			e.SubN = ri(t, 0, 5, "subn") == 0
		}
		if !ClassSet(e).Empty() {
			return e
		}
		if try > 3 {
			return &Expr{Kind: "class", Set: []Rng{{Lo: 97, Hi: 99}}}
		}
	}
}

func genLit(t *rapid.T, g *genState) *Expr {
	n := ri(t, 1, 3, "n")
	var rs []rune
	for i := 0; i < n; i++ {
		rs = append(rs, poolRune(t, nil))
	}
	return &Expr{Kind: "lit", Lit: string(rs)}
}

func genExpr(t *rapid.T, g *genState, depth int, macros []string) *Expr {
	max := 10
	if depth <= 0 {
		max = 3
	}
	switch k := ri(t, 0, max, "k"); {
	case k == 10:
		// loops whose bodies can match the empty string, one after another, then something that
		// cannot: ('a'?)+ ('b'?)* 'c', ([0-9a-f]* '_'?)+ ([uU]?)* - the automaton has ε-cycles, and
		// the second is entered while the first is still open
		small := func() *Expr {
			if rapid.Bool().Draw(t, "elit") {
				return &Expr{Kind: "lit", Lit: string(poolRune(t, nil))}
			}
			return genClass(t, g)
		}
		nullableBody := func() *Expr {
			switch ri(t, 0, 3, "nb") {
			case 0:
				return &Expr{Kind: "seq", Kids: []*Expr{{Kind: "star", Kids: []*Expr{small()}}, {Kind: "opt", Kids: []*Expr{small()}}}}
			case 1:
				return &Expr{Kind: "seq", Kids: []*Expr{{Kind: "opt", Kids: []*Expr{small()}}, {Kind: "opt", Kids: []*Expr{small()}}}}
			default:
				return &Expr{Kind: "opt", Kids: []*Expr{small()}}
			}
		}
		e := &Expr{Kind: "seq"}
		if rapid.Bool().Draw(t, "ehead") {
			e.Kids = append(e.Kids, small())
		}
		for i, n := 0, ri(t, 1, 3, "nloops"); i < n; i++ {
			kind := []string{"star", "plus"}[ri(t, 0, 1, "lk")]
			e.Kids = append(e.Kids, &Expr{Kind: kind, Kids: []*Expr{{Kind: "group", Kids: []*Expr{nullableBody()}}}})
		}
		e.Kids = append(e.Kids, small())
		return e
	case k == 0 || k == 1:
		return genLit(t, g)
	case k == 2:
		return genClass(t, g)
	case k == 3:
		if len(macros) > 0 && ri(t, 0, 1, "m") == 0 {
			return &Expr{Kind: "ref", Ref: macros[ri(t, 0, len(macros)-1, "mi")]}
		}
		if ri(t, 0, 2, "any") == 0 {
			return &Expr{Kind: "any"}
		}
		return genClass(t, g)
	case k <= 5:
		e := &Expr{Kind: "seq"}
		for i, n := 0, ri(t, 2, 3, "n"); i < n; i++ {
			e.Kids = append(e.Kids, genExpr(t, g, depth-1, macros))
		}
		if ri(t, 0, 5, "group") == 0 {
			return &Expr{Kind: "group", Kids: []*Expr{e}} // explicit parentheses
		}
		return e
	case k == 6:
		e := &Expr{Kind: "alt"}
		for i, n := 0, ri(t, 2, 3, "n"); i < n; i++ {
			e.Kids = append(e.Kids, genExpr(t, g, depth-1, macros))
		}
		return e
	default:
		kind := []string{"opt", "star", "plus"}[ri(t, 0, 2, "c")]
		if g.ng && kind != "opt" && ri(t, 0, 2, "ng") == 0 {
			kind += "ng"
		}
		return &Expr{Kind: kind, Kids: []*Expr{genExpr(t, g, depth-1, macros)}}
	}
}

// GenSpec draws a lexer specification that satisfies the stated preconditions
// by construction (non-empty classes; no nullable rule unless o.Nullable).
func GenSpec(t *rapid.T, o Opts) *Spec {
	if o.MaxRules == 0 {
		o.MaxRules = 5
	}
	if o.Depth == 0 {
		o.Depth = 3
	}
	g := &genState{ng: o.NonGreedy}
	s := &Spec{}
	var macroNames []string
	if o.Macros && ri(t, 0, 2, "macros?") != 0 {
		for i, n := 0, ri(t, 1, 3, "nm"); i < n; i++ {
			name := fmt.Sprintf("M%c", 'A'+rune(i))
			// acyclic by construction: a macro only refers to earlier macros
			e := genExpr(t, g, 2, macroNames)
			if len(macroNames) > 0 && ri(t, 0, 2, "nestmacro") == 0 {
				// a macro that begins or ends with a repetition of another macro ('.' DIGIT+): the ends
				// of its automaton fragment are the ends of a loop
				inner := &Expr{Kind: []string{"star", "plus", "opt"}[ri(t, 0, 2, "nmk")], Kids: []*Expr{{Kind: "ref", Ref: macroNames[ri(t, 0, len(macroNames)-1, "nmi")]}}}
				if rapid.Bool().Draw(t, "nmfirst") {
					e = &Expr{Kind: "seq", Kids: []*Expr{inner, genLit(t, g)}}
				} else {
					e = &Expr{Kind: "seq", Kids: []*Expr{genLit(t, g), inner}}
				}
			}
			s.Macros = append(s.Macros, &Macro{Name: name, E: e})
			macroNames = append(macroNames, name)
		}
	}
	nModes := 0
	if o.MaxModes > 0 {
		nModes = ri(t, 0, o.MaxModes, "nmodes")
		if o.ModeActs && ri(t, 0, 99, "manymodes") < 4 {
			// two-digit mode indices: 10-13 named modes with few, shallow rules each
			nModes = ri(t, 10, 13, "nmodes2")
			o.MaxRules = min(o.MaxRules, 2)
			o.Depth = min(o.Depth, 2)
		}
	}
	s.Modes = append(s.Modes, &Mode{Name: ""})
	for i := 0; i < nModes; i++ {
		s.Modes = append(s.Modes, &Mode{Name: fmt.Sprintf("Md%c", 'a'+rune(i))})
	}
	eng := NewEng()
	tokSeq := 0
	var tokNames []string
	// first pass: rules and names
	for mi, m := range s.Modes {
		nr := ri(t, 1, o.MaxRules, "nr")
		for i := 0; i < nr; i++ {
			e := genExpr(t, g, o.Depth, macroNames)
			if len(macroNames) > 0 && ri(t, 0, 5, "cardmacro") == 0 {
				// MACRO? / MACRO* / MACRO+ between two literals (or at an end of the rule)
				card := &Expr{Kind: []string{"opt", "star", "plus"}[ri(t, 0, 2, "cmk")], Kids: []*Expr{{Kind: "ref", Ref: macroNames[ri(t, 0, len(macroNames)-1, "cmi")]}}}
				kids := []*Expr{card}
				if ri(t, 0, 2, "cmpre") != 0 {
					kids = append([]*Expr{genClass(t, g)}, kids...)
				}
				if ri(t, 0, 2, "cmpost") == 0 {
					kids = append(kids, genLit(t, g))
				}
				if len(kids) > 1 {
					e = &Expr{Kind: "seq", Kids: kids}
				} else {
					e = card
				}
			}
			if o.NonGreedy && ri(t, 0, 4, "ngrule") == 0 {
				// body*? terminator
				e = &Expr{Kind: "seq", Kids: []*Expr{{Kind: []string{"starng", "plusng"}[ri(t, 0, 1, "ngk")], Kids: []*Expr{genClass(t, g)}}, genLit(t, g)}}
				if ri(t, 0, 2, "ngopen") != 0 {
					e.Kids = append([]*Expr{genLit(t, g)}, e.Kids...)
				}
			}
			if !o.Nullable && eng.Nullable(s, e) {
				e = &Expr{Kind: "seq", Kids: []*Expr{e, genLit(t, g)}}
			}
			r := &Rule{E: e}
			kind := ri(t, 0, 9, "kind")
			if !o.Frags || kind >= 4 {
				r.Name = fmt.Sprintf("T%c%c", 'A'+rune(mi), 'A'+rune(i))
				tokSeq++
				tokNames = append(tokNames, r.Name)
			}
			m.Rules = append(m.Rules, r)
		}
	}
	// now and then every rule of a mode starts with the same loop (body of one to three symbols): after
	// minimisation the start state is then re-entered in the middle of a token
	for _, m := range s.Modes {
		if ri(t, 0, 24, "commonloop") != 0 {
			continue
		}
		body := &Expr{Kind: "seq"}
		for i, n := 0, ri(t, 1, 3, "looplen"); i < n; i++ {
			if rapid.Bool().Draw(t, "loopcls") {
				body.Kids = append(body.Kids, genClass(t, g))
			} else {
				body.Kids = append(body.Kids, genLit(t, g))
			}
		}
		var loop *Expr
		if len(body.Kids) == 1 {
			loop = &Expr{Kind: "star", Kids: []*Expr{body.Kids[0]}}
		} else {
			loop = &Expr{Kind: "star", Kids: []*Expr{body}}
		}
		for _, r := range m.Rules {
			tail := r.E
			if eng.Nullable(s, tail) {
				tail = &Expr{Kind: "seq", Kids: []*Expr{tail, genLit(t, g)}}
			}
			r.E = &Expr{Kind: "seq", Kids: []*Expr{loop, tail}}
		}
	}
	if o.BigPct > 0 && ri(t, 0, 99, "bigspec") < o.BigPct {
		seen := map[string]bool{}
		letters := []rune("abcdef")
		for i, n := 0, ri(t, 60, 160, "nkw"); i < n; i++ {
			l := ri(t, 2, 5, "kwlen")
			rs := make([]rune, l)
			for j := range rs {
				rs[j] = letters[ri(t, 0, len(letters)-1, "kwc")]
			}
			if seen[string(rs)] {
				continue
			}
			seen[string(rs)] = true
			name := fmt.Sprintf("KW%d", i)
			s.Modes[0].Rules = append(s.Modes[0].Rules, &Rule{Name: name, E: &Expr{Kind: "lit", Lit: string(rs)}})
			tokNames = append(tokNames, name)
		}
	}
	if len(tokNames) == 0 {
		r := s.Modes[0].Rules[0]
		r.Name = "TAA"
		tokNames = append(tokNames, r.Name)
	}
	// second pass: actions
	for _, m := range s.Modes {
		for i, r := range m.Rules {
			var acts []Action
			if r.Name == "" {
				switch ri(t, 0, 5, "fk") {
				case 0, 1:
					acts = append(acts, Action{Kind: "discard"})
				case 2:
					acts = append(acts, Action{Kind: "emit", Arg: tokNames[ri(t, 0, len(tokNames)-1, "et")]})
				default: // accumulate
				}
			}
			if o.ModeActs && nModes > 0 {
				var mact []Action
				switch roll := ri(t, 0, 9, "ma"); {
				case roll <= 2:
					mact = append(mact, Action{Kind: "push", Arg: s.Modes[ri(t, 0, nModes, "pm")].Name})
				case roll == 3 && m.Name != "":
					mact = append(mact, Action{Kind: "pop"})
				case roll == 4 && m.Name != "":
					// several mode actions on one rule
					mact = append(mact, Action{Kind: "pop"}, Action{Kind: "push", Arg: s.Modes[ri(t, 0, nModes, "pm")].Name})
				case roll == 5:
					mact = append(mact, Action{Kind: "push", Arg: s.Modes[ri(t, 0, nModes, "pm")].Name}, Action{Kind: "push", Arg: s.Modes[ri(t, 0, nModes, "pm2")].Name})
				case roll == 6 && ri(t, 0, 1, "twice") == 0:
					// the same mode action twice (mode actions are not idempotent)
					a := Action{Kind: "push", Arg: s.Modes[ri(t, 0, nModes, "pm")].Name}
					if o.RepeatPop && m.Name != "" && rapid.Bool().Draw(t, "poptwice") {
						a = Action{Kind: "pop"}
					}
					mact = append(mact, a, a)
					if ri(t, 0, 2, "thrice") == 0 {
						mact = append(mact, a)
					}
				}
				// every named mode needs a way out: its last rule pops
				if m.Name != "" && i == len(m.Rules)-1 && len(mact) == 0 {
					mact = append(mact, Action{Kind: "pop"})
				}
				if o.ShuffleAct && len(mact) > 0 && len(acts) > 0 {
					// place the emit/discard anywhere among the mode actions (their relative order is kept)
					at := ri(t, 0, len(mact), "at")
					all := append([]Action{}, mact[:at]...)
					all = append(all, acts...)
					all = append(all, mact[at:]...)
					acts = all
				} else {
					acts = append(mact, acts...)
				}
			}
			r.Actions = acts
		}
	}
	// make named modes reachable: some default-mode rule pushes each of them
	if o.ModeActs {
		for mi := 1; mi <= nModes; mi++ {
			reach := false
			for _, m := range s.Modes {
				for _, r := range m.Rules {
					for _, a := range r.Actions {
						if a.Kind == "push" && a.Arg == s.Modes[mi].Name && m != s.Modes[mi] {
							reach = true
						}
					}
				}
			}
			if !reach {
				host := s.Modes[ri(t, 0, mi-1, "host")]
				r := host.Rules[ri(t, 0, len(host.Rules)-1, "hr")]
				r.Actions = append([]Action{{Kind: "push", Arg: s.Modes[mi].Name}}, r.Actions...)
			}
		}
	}
	if o.ModeActs && nModes > 0 && nModes < 10 && ri(t, 0, 11, "emptymode") == 0 {
		// a declared mode without any rule (nothing refers to it): it still takes a mode index,
		// somewhere in the middle of the name order
		k := ri(t, 0, nModes-1, "emptyafter")
		s.Modes = append(s.Modes, &Mode{Name: fmt.Sprintf("Md%ca", 'a'+rune(k))})
	}
	s.Style = ri(t, 0, 1, "style")
	if ri(t, 0, 4, "ws-style") == 0 {
		s.Style |= ri(t, 1, 3, "ws-bits") << 1
	}
	if len(s.Macros) > 0 && len(s.Modes[0].Rules) > 0 && ri(t, 0, 3, "late-macros") == 0 {
		// macros declared after some of the rules that use them (forward references are accepted)
		s.Style |= 8 | ri(t, 0, 15, "macros-after")<<4
	}
	return s
}

// Sample appends a random string of L(e) to out (best effort: class samples
// come from the set's interval endpoints and the pool).
func Sample(t *rapid.T, s *Spec, e *Expr, out *[]rune, budget *int) {
	*budget--
	switch e.Kind {
	case "lit":
		*out = append(*out, []rune(e.Lit)...)
	case "class", "any":
		cs := ClassSet(e)
		if cs.Empty() {
			return
		}
		iv := cs.R[ri(t, 0, len(cs.R)-1, "iv")]
		var c rune
		switch ri(t, 0, 3, "pt") {
		case 0:
			c = iv.Lo
		case 1:
			c = iv.Hi
		default:
			c = iv.Lo + rune(ri(t, 0, int(iv.Hi-iv.Lo), "off"))
		}
		if c >= 0xD800 && c <= 0xDFFF {
			c = iv.Lo
			if c >= 0xD800 && c <= 0xDFFF {
				c = 0xE000
			}
		}
		*out = append(*out, c)
	case "ref":
		if m := s.MacroByName(e.Ref); m != nil && *budget > 0 {
			Sample(t, s, m.E, out, budget)
		}
	case "seq", "group":
		for _, k := range e.Kids {
			Sample(t, s, k, out, budget)
		}
	case "alt":
		Sample(t, s, e.Kids[ri(t, 0, len(e.Kids)-1, "alt")], out, budget)
	case "opt":
		if rapid.Bool().Draw(t, "opt") {
			Sample(t, s, e.Kids[0], out, budget)
		}
	case "star", "plus", "starng", "plusng":
		n := ri(t, 0, 3, "rep")
		if e.Kind == "plus" || e.Kind == "plusng" {
			n++
		}
		for i := 0; i < n && *budget > 0; i++ {
			Sample(t, s, e.Kids[0], out, budget)
		}
	}
}

// GenText draws one input: a walk over the mode graph that mostly emits text
// the current mode can match (so deep modes are reached), with noise.
func GenText(t *rapid.T, s *Spec) []byte {
	midx := map[string]int{}
	for i, m := range s.Modes {
		midx[m.Name] = i
	}
	var rs []rune
	mode := 0
	var stack []int
	steps := ri(t, 1, 12, "steps")
	for i := 0; i < steps; i++ {
		roll := ri(t, 0, 19, "noise")
		if roll == 0 {
			rs = append(rs, Pool[ri(t, 0, len(Pool)-1, "np")])
			continue
		}
		m := s.Modes[mode]
		r := m.Rules[ri(t, 0, len(m.Rules)-1, "rule")]
		// steer the walk: go deeper while shallow, come back once deep
		if want := map[bool]string{true: "push", false: "pop"}[len(stack) < 2 && i < steps/2+1]; ri(t, 0, 9, "steer") < 6 {
			var cands []*Rule
			for _, c := range m.Rules {
				for _, a := range c.Actions {
					if a.Kind == want {
						cands = append(cands, c)
						break
					}
				}
			}
			if len(cands) > 0 {
				r = cands[ri(t, 0, len(cands)-1, "steered")]
			}
		}
		budget := 14
		before := len(rs)
		Sample(t, s, r.E, &rs, &budget)
		if roll == 1 && len(rs) > before {
			// near miss: replace one code point by a neighbour
			k := before + ri(t, 0, len(rs)-before-1, "nm")
			d := rune(ri(t, -1, 1, "nmd"))
			if x := rs[k] + d; x >= 0 && x <= MaxRune && !(x >= 0xD800 && x <= 0xDFFF) {
				rs[k] = x
			}
			continue
		}
		if roll == 2 && len(rs) > before+1 {
			rs = rs[:before+ri(t, 1, len(rs)-before-1, "cut")] // cut in the middle of a construct
			continue
		}
		for _, a := range r.Actions {
			switch a.Kind {
			case "push":
				stack = append(stack, mode)
				mode = midx[a.Arg]
			case "pop":
				if len(stack) > 0 {
					mode = stack[len(stack)-1]
					stack = stack[:len(stack)-1]
				}
			}
		}
	}
	in := []byte(string(rs))
	switch ri(t, 0, 14, "bad") {
	case 0:
		in = append(in, 0x80)
	case 1:
		k := ri(t, 0, len(in), "bi")
		in = append(in[:k], append([]byte{0xC0, 0x20}, in[k:]...)...)
	case 2:
		if len(in) > 0 {
			in = append(in, 0xE2, 0x82) // truncated sequence
		}
	}
	return in
}

// Texts draws n distinct inputs.
func Texts(t *rapid.T, s *Spec, n int) [][]byte {
	seen := map[string]bool{}
	var out [][]byte
	for i := 0; i < n; i++ {
		in := GenText(t, s)
		if len(in) > 200 || seen[string(in)] {
			continue
		}
		seen[string(in)] = true
		out = append(out, in)
	}
	return out
}

// GenClassAny / GenLitAny expose the class and literal generators.
func GenClassAny(t *rapid.T) *Expr { return genClass(t, &genState{}) }

// GenClassRich favours negation, difference and items that merge.
func GenClassRich(t *rapid.T) *Expr { return genClass(t, &genState{rich: true}) }
func GenLitAny(t *rapid.T) *Expr   { return genLit(t, &genState{}) }
