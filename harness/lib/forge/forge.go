// Package forge is the layer B/C machinery: it materialises generated packages
// in a scratch module, runs the real codegen.Generate on each, compiles all of
// them plus a driver main in one `go build`, and runs the driver.
package forge

import (
	"bytes"
	"fmt"
	"os"
	"os/exec"
	"path/filepath"
	"sort"
	"strings"
	"sync"
	"sync/atomic"
	"time"

	"github.com/dcaiafa/lox/verifharness/lib/loxb"
)

// Pkg is one generated package of a batch.
type Pkg struct {
	Name  string            // package name == directory name
	Files map[string]string // *.lox and user *.go files
	Dir   string
	Gen   loxb.GenResult
	Out   map[string]string // generated files (after Generate)
}

type Batch struct {
	Dir  string
	Pkgs []*Pkg
	Keep bool
}

var seq int64

func workBase() string {
	if w := os.Getenv("VERIF_WORK"); w != "" {
		return w
	}
	if t := os.Getenv("TMPDIR"); t != "" {
		return t
	}
	return "/var/tmp"
}

const scratchMod = "module verifscratch\n\ngo 1.23.0\n\nrequire github.com/dcaiafa/loxlex v0.5.0\n"
const scratchSum = "github.com/dcaiafa/loxlex v0.5.0 h1:UFuL0t2B0EOCdG/95Lrz+m3vliPZ52jr8bDdvU/jDgY=\ngithub.com/dcaiafa/loxlex v0.5.0/go.mod h1:YtX/9OQs4vnb/Whags9C4VqtndFpjeyJ6cxxt8BiHRY=\n"

// NewBatch creates a scratch module.
func NewBatch() (*Batch, error) {
	n := atomic.AddInt64(&seq, 1)
	dir := filepath.Join(workBase(), fmt.Sprintf("batch-%d-%d", os.Getpid(), n))
	if err := os.MkdirAll(dir, 0o755); err != nil {
		return nil, err
	}
	if err := os.WriteFile(filepath.Join(dir, "go.mod"), []byte(scratchMod), 0o644); err != nil {
		return nil, err
	}
	if err := os.WriteFile(filepath.Join(dir, "go.sum"), []byte(scratchSum), 0o644); err != nil {
		return nil, err
	}
	return &Batch{Dir: dir}, nil
}

func (b *Batch) Close() {
	if !b.Keep {
		os.RemoveAll(b.Dir)
	}
}

// Add registers a package; files are written immediately.
func (b *Batch) Add(files map[string]string) (*Pkg, error) {
	p := &Pkg{Name: fmt.Sprintf("c%04d", len(b.Pkgs)), Files: files}
	p.Dir = filepath.Join(b.Dir, p.Name)
	if err := os.MkdirAll(p.Dir, 0o755); err != nil {
		return nil, err
	}
	for n, c := range files {
		// PKGNAME stands for the package's name, in contents and in file names (a name such as
		// "../helper/PKGNAME/h.go" places a second package beside this one in the scratch module)
		c = strings.ReplaceAll(c, "PKGNAME", p.Name)
		path := filepath.Join(p.Dir, strings.ReplaceAll(n, "PKGNAME", p.Name))
		if err := os.MkdirAll(filepath.Dir(path), 0o755); err != nil {
			return nil, err
		}
		if err := os.WriteFile(path, []byte(c), 0o644); err != nil {
			return nil, err
		}
	}
	b.Pkgs = append(b.Pkgs, p)
	return p, nil
}

var envMu sync.Mutex

// FastLoader selects how go/packages obtains package metadata during
// Generate: true = the harness's GOPACKAGESDRIVER (import-free packages only,
// falls back to go list otherwise), false = the real `go list`.
func FastLoader(on bool) {
	envMu.Lock()
	defer envMu.Unlock()
	os.Setenv("GOMAXPROCS", "2") // children only (our own runtime has already read it)
	if d := os.Getenv("VERIF_PKGDRIVER"); on && d != "" {
		os.Setenv("GOPACKAGESDRIVER", d)
	} else {
		os.Setenv("GOPACKAGESDRIVER", "off")
	}
}

// Generate runs the real generator on every package of the batch.
func (b *Batch) Generate(par int, report bool) {
	if par < 1 {
		par = 1
	}
	sem := make(chan struct{}, par)
	var wg sync.WaitGroup
	for _, p := range b.Pkgs {
		p := p
		wg.Add(1)
		sem <- struct{}{}
		go func() {
			defer wg.Done()
			defer func() { <-sem }()
			p.Gen = loxb.Generate(p.Dir, report)
			p.Out = loxb.ReadGen(p.Dir)
		}()
	}
	wg.Wait()
}

// BuildError carries the compiler output.
type BuildError struct {
	Output string
}

func (e *BuildError) Error() string { return "go build failed:\n" + e.Output }

// Build compiles the driver main (which imports the generated packages as
// verifscratch/<name>) and returns the binary path.
func (b *Batch) Build(mainSrc string, race bool) (string, error) {
	drv := filepath.Join(b.Dir, "drv")
	if err := os.MkdirAll(drv, 0o755); err != nil {
		return "", err
	}
	if err := os.WriteFile(filepath.Join(drv, "main.go"), []byte(mainSrc), 0o644); err != nil {
		return "", err
	}
	bin := filepath.Join(drv, "drv.bin")
	args := []string{"build", "-p", "8", "-o", bin}
	if race {
		args = append(args, "-race")
	}
	args = append(args, "./drv")
	cmd := exec.Command("go", args...)
	cmd.Dir = b.Dir
	cmd.Env = cleanEnv("GOFLAGS=-mod=mod", "GOPROXY=off", "GOSUMDB=off", "GOTOOLCHAIN=local", "GOPACKAGESDRIVER=off")
	out, err := cmd.CombinedOutput()
	if err != nil {
		return "", &BuildError{Output: string(out)}
	}
	return bin, nil
}

func cleanEnv(extra ...string) []string {
	skip := map[string]bool{"GOFLAGS": true, "GOPACKAGESDRIVER": true, "GOMAXPROCS": true, "GORACE": true}
	var env []string
	for _, e := range os.Environ() {
		k := e
		if i := strings.IndexByte(e, '='); i >= 0 {
			k = e[:i]
		}
		if !skip[k] {
			env = append(env, e)
		}
	}
	return append(env, extra...)
}

// RunResult of the driver binary.
type RunResult struct {
	Stdout   []byte
	Stderr   []byte
	Err      error
	TimedOut bool
}

// Run executes the driver binary with stdin; a hard wall-clock guard only
// protects the harness (a hit is reported as TimedOut = inconclusive, never as a
// property verdict: properties use step bounds inside the driver).
func Run(bin string, stdin []byte, guard time.Duration, env ...string) RunResult {
	cmd := exec.Command(bin)
	cmd.Stdin = bytes.NewReader(stdin)
	var so, se bytes.Buffer
	cmd.Stdout = &so
	cmd.Stderr = &se
	cmd.Env = cleanEnv(env...)
	if err := cmd.Start(); err != nil {
		return RunResult{Err: err}
	}
	done := make(chan error, 1)
	go func() { done <- cmd.Wait() }()
	select {
	case err := <-done:
		return RunResult{Stdout: so.Bytes(), Stderr: se.Bytes(), Err: err}
	case <-time.After(guard):
		cmd.Process.Kill()
		<-done
		return RunResult{Stdout: so.Bytes(), Stderr: se.Bytes(), TimedOut: true, Err: fmt.Errorf("driver killed after %v", guard)}
	}
}

// Imports renders the import lines for the successfully generated packages.
func (b *Batch) Imports(ok func(*Pkg) bool) string {
	var sb strings.Builder
	for _, p := range b.Pkgs {
		if ok(p) {
			fmt.Fprintf(&sb, "\t%s \"verifscratch/%s\"\n", p.Name, p.Name)
		}
	}
	return sb.String()
}

// SortedKeys is a small helper for deterministic iteration.
func SortedKeys[V any](m map[string]V) []string {
	ks := make([]string, 0, len(m))
	for k := range m {
		ks = append(ks, k)
	}
	sort.Strings(ks)
	return ks
}

// LexStub is the import-free user file for lexer-only specifications.
const LexStub = `package PKGNAME

type Token struct{}

type prs struct{ lox }
`

// GenerateOnly materialises the cases, runs the real generator on each
// (layer B) and returns the packages; call Close on the batch when done.
func GenerateOnly(cases []map[string]string, fast bool, report bool) (*Batch, error) {
	b, err := NewBatch()
	if err != nil {
		return nil, err
	}
	FastLoader(fast)
	for _, files := range cases {
		if _, err := b.Add(files); err != nil {
			b.Close()
			return nil, err
		}
	}
	b.Generate(8, report)
	return b, nil
}
