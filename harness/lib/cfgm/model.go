// Package cfgm: grammar model with the documented desugaring, FIRST by fixpoint,
// canonical LR(1) merged by core (= LALR(1) by definition), documented precedence
// rule, Earley recogniser. Shares no code with lox.
package cfgm

import (
	"fmt"
	"sort"
	"strings"
)

type Kind int

const (
	KSym Kind = iota
	KOpt
	KStar
	KPlus
	KStarF
	KList
	KListOpt
	KErr
	KPlusF // only as helper kind (x+! behind x*!)
)

type Term struct {
	Kind  Kind
	Name  string // symbol name (token or rule)
	IsTok bool
	Sep   string
	SepTk bool
}

type Prod struct {
	Terms []Term
	Prec  int // 0 = none
	Right bool
}

type Rule struct {
	Name  string
	Prods []Prod
}

type G struct {
	Toks  []string
	Rules []Rule // Rules[0] is @start
	Style int    // rendering variations, see Lox
}

func (t Term) String() string { return t.render(nil) }

func (t Term) render(alias func(string) string) string {
	nm := func(n string, tok bool) string {
		if n == "ERROR" {
			return "@error"
		}
		if tok && alias != nil {
			return alias(n)
		}
		return n
	}
	switch t.Kind {
	case KSym:
		return nm(t.Name, t.IsTok)
	case KOpt:
		return nm(t.Name, t.IsTok) + "?"
	case KStar:
		return nm(t.Name, t.IsTok) + "*"
	case KPlus:
		return nm(t.Name, t.IsTok) + "+"
	case KStarF:
		return nm(t.Name, t.IsTok) + "*!"
	case KList:
		return fmt.Sprintf("@list(%s, %s)", nm(t.Name, t.IsTok), nm(t.Sep, t.SepTk))
	case KListOpt:
		return fmt.Sprintf("@list(%s, %s)?", nm(t.Name, t.IsTok), nm(t.Sep, t.SepTk))
	case KErr:
		return "@error"
	}
	panic("kind")
}

// level writes a precedence level; style bit 512 pads it with zeros to three digits (a decimal
// number either way).
func (g *G) level(n int) string {
	if g.Style&512 != 0 {
		return fmt.Sprintf("%03d", n)
	}
	return fmt.Sprint(n)
}

// TokChar is the single character the default lexer section assigns to token i.
func TokChar(i int) rune { return 'a' + rune(i) }

// Lox renders the grammar as .lox text. Style bits vary the spelling only
// (documented equivalents): 1 = refer to tokens by literal alias in the parser
// section, 2 = continuation with a trailing backslash instead of a leading '|',
// 4 = comments and blank lines, 8 = parser section first, 16 = two files (LoxFiles),
// 32 (with 1) = literal aliases for all tokens instead of every other one.
func (g *G) loxLF() string {
	var lx, ps strings.Builder
	lx.WriteString("@lexer\n")
	tokIdx := map[string]int{}
	for i, t := range g.Toks {
		tokIdx[t] = i
		fmt.Fprintf(&lx, "%s = '%c'\n", t, TokChar(i))
		if g.Style&4 != 0 && i%2 == 0 {
			lx.WriteString("// comment\n\n")
		}
	}
	lx.WriteString("@frag ' ' @discard\n")
	var alias func(string) string
	if g.Style&1 != 0 {
		alias = func(n string) string {
			if i, ok := tokIdx[n]; ok && (i%2 == 0 || g.Style&32 != 0) {
				return fmt.Sprintf("'%c'", TokChar(i))
			}
			return n
		}
	}
	ps.WriteString("@parser\n")
	for i, r := range g.Rules {
		if g.Style&4 != 0 && i%2 == 1 {
			ps.WriteString("\n// rule " + r.Name + "\n")
		}
		if i == 0 {
			ps.WriteString("@start ")
		}
		fmt.Fprintf(&ps, "%s = ", r.Name)
		for j, p := range r.Prods {
			if j > 0 {
				if g.Style&2 != 0 {
					ps.WriteString(" | \\\n    ")
				} else {
					ps.WriteString("\n    | ")
				}
			}
			if len(p.Terms) == 0 {
				ps.WriteString("@empty")
			}
			for k, t := range p.Terms {
				if k > 0 {
					ps.WriteString(" ")
				}
				ps.WriteString(t.render(alias))
			}
			if p.Prec > 0 {
				if p.Right {
					fmt.Fprintf(&ps, " @right(%s)", g.level(p.Prec))
				} else {
					fmt.Fprintf(&ps, " @left(%s)", g.level(p.Prec))
				}
			}
		}
		ps.WriteString("\n")
	}
	if g.Style&8 != 0 {
		return ps.String() + "\n" + lx.String()
	}
	return lx.String() + "\n" + ps.String()
}

// Lox renders the grammar; on top of the spellings of loxLF: style bit 64 = CRLF line ends,
// bit 128 = tabs instead of runs of four blanks, bit 256 = blanks after a continuation backslash
// and at line ends.
func (g *G) Lox() string {
	text := g.loxLF()
	if g.Style&128 != 0 {
		text = strings.ReplaceAll(text, "    ", "\t")
	}
	if g.Style&256 != 0 {
		text = strings.ReplaceAll(text, "\\\n", "\\ \t\n")
		text = strings.ReplaceAll(text, "\n    |", " \n    |")
	}
	if g.Style&64 != 0 {
		text = strings.ReplaceAll(text, "\n", "\r\n")
	}
	return text
}

// LoxFiles renders the grammar as one file, or (style bit 16) as two files:
// the sections are split so that the file read first (by name) holds the parser
// section when bit 8 is set and the lexer section otherwise.
func (g *G) LoxFiles() map[string]string {
	if g.Style&16 == 0 {
		return map[string]string{"g.lox": g.Lox()}
	}
	crlf := g.Style&64 != 0
	g2 := *g
	g2.Style &^= 64
	text := g2.Lox()
	conv := func(m map[string]string) map[string]string {
		if crlf {
			for k, v := range m {
				m[k] = strings.ReplaceAll(v, "\n", "\r\n")
			}
		}
		return m
	}
	i := strings.Index(text, "\n@parser\n")
	j := strings.Index(text, "\n@lexer\n")
	var first, second string
	switch {
	case strings.HasPrefix(text, "@parser") && j >= 0:
		first, second = text[:j+1], text[j+1:]
	case strings.HasPrefix(text, "@lexer") && i >= 0:
		first, second = text[:i+1], text[i+1:]
	default:
		return conv(map[string]string{"g.lox": text})
	}
	return conv(map[string]string{"a.lox": first, "b.lox": second})
}

// ---------------------------------------------------------------------------
// Plain CFG

type PProd struct {
	LHS   int // nonterminal index
	RHS   []int
	Prec  int
	Right bool
	Key   string // "lhsname = a b c" using lox helper-rule naming
	User  bool
	URule int // index into G.Rules (-1 for generated helper productions)
	UAlt  int // index into G.Rules[URule].Prods
}

// Plain grammar. Symbols: terminals 0..NT-1 (0=EOF,1=ERROR, 2.. tokens),
// nonterminals NT.. ; nonterminal NT is S'.
type Plain struct {
	NT      int // number of terminals
	Names   []string
	Prods   []PProd // Prods[0] = S' -> start
	ByLHS   map[int][]int
	HKind   map[int]Kind // generated helper nonterminal -> kind of sugar it implements
	G       *G
	cache   *sets
	heights []int
}

func (p *Plain) IsTerm(s int) bool { return s < p.NT }

// Desugar expands sugar the way the documentation describes it (helper rule
// names follow lox so productions can be matched by name).
func Desugar(g *G) *Plain {
	p := &Plain{ByLHS: map[int][]int{}, HKind: map[int]Kind{}, G: g}
	p.Names = append(p.Names, "EOF", "ERROR")
	idx := map[string]int{"EOF": 0, "ERROR": 1}
	for _, t := range g.Toks {
		idx[t] = len(p.Names)
		p.Names = append(p.Names, t)
	}
	p.NT = len(p.Names)
	nt := func(name string) (int, bool) {
		if i, ok := idx[name]; ok {
			return i, false
		}
		idx[name] = len(p.Names)
		p.Names = append(p.Names, name)
		return idx[name], true
	}
	sprime, _ := nt("S'")
	for _, r := range g.Rules {
		nt(r.Name)
	}
	add := func(lhs int, user bool, prec int, right bool, rhs ...int) {
		names := make([]string, len(rhs))
		for i, s := range rhs {
			names[i] = p.Names[s]
		}
		pp := PProd{LHS: lhs, RHS: rhs, Prec: prec, Right: right, User: user, URule: -1, UAlt: -1,
			Key: p.Names[lhs] + " = " + strings.Join(names, " ")}
		p.ByLHS[lhs] = append(p.ByLHS[lhs], len(p.Prods))
		p.Prods = append(p.Prods, pp)
	}
	add(sprime, false, 0, false, idx[g.Rules[0].Name])

	var helper func(t Term) int
	helper = func(t Term) int {
		x := idx[t.Name]
		switch t.Kind {
		case KSym:
			return x
		case KErr:
			return 1
		case KOpt:
			h, fresh := nt(t.Name + "?")
			if fresh {
				p.HKind[h] = KOpt
				add(h, false, 0, false, x)
				add(h, false, 0, false)
			}
			return h
		case KPlus:
			h, fresh := nt(t.Name + "+")
			if fresh {
				p.HKind[h] = KPlus
				add(h, false, 0, false, h, x)
				add(h, false, 0, false, x)
			}
			return h
		case KStar:
			h, fresh := nt(t.Name + "*")
			if fresh {
				p.HKind[h] = KStar
				plus := helper(Term{Kind: KPlus, Name: t.Name, IsTok: t.IsTok})
				add(h, false, 0, false, plus)
				add(h, false, 0, false)
			}
			return h
		case KStarF:
			h, fresh := nt(t.Name + "*!")
			if fresh {
				p.HKind[h] = KStarF
				plus, fp := nt(t.Name + "+!")
				if fp {
					p.HKind[plus] = KPlusF
					add(plus, false, 0, false, plus, x)
					add(plus, false, 0, false, x)
				}
				add(h, false, 0, false, plus)
				add(h, false, 0, false)
			}
			return h
		case KList:
			h, fresh := nt(fmt.Sprintf("@list(%s,%s)", t.Name, t.Sep))
			if fresh {
				p.HKind[h] = KList
				add(h, false, 0, false, h, idx[t.Sep], x)
				add(h, false, 0, false, x)
			}
			return h
		case KListOpt:
			h, fresh := nt(fmt.Sprintf("@list(%s,%s)?", t.Name, t.Sep))
			if fresh {
				p.HKind[h] = KListOpt
				l := helper(Term{Kind: KList, Name: t.Name, IsTok: t.IsTok, Sep: t.Sep, SepTk: t.SepTk})
				add(h, false, 0, false, l)
				add(h, false, 0, false)
			}
			return h
		}
		panic("kind")
	}
	for ri, r := range g.Rules {
		lhs := idx[r.Name]
		for ai, pr := range r.Prods {
			rhs := make([]int, len(pr.Terms))
			for i, t := range pr.Terms {
				rhs[i] = helper(t)
			}
			add(lhs, true, pr.Prec, pr.Right, rhs...)
			p.Prods[len(p.Prods)-1].URule = ri
			p.Prods[len(p.Prods)-1].UAlt = ai
		}
	}
	return p
}

// ---------------------------------------------------------------------------
// nullable / FIRST by fixpoint

type sets struct {
	nullable []bool
	first    []map[int]bool
}

func analyse(p *Plain) *sets {
	n := len(p.Names)
	s := &sets{nullable: make([]bool, n), first: make([]map[int]bool, n)}
	for i := range s.first {
		s.first[i] = map[int]bool{}
		if p.IsTerm(i) {
			s.first[i][i] = true
		}
	}
	for changed := true; changed; {
		changed = false
		for _, pr := range p.Prods {
			allNull := true
			for _, x := range pr.RHS {
				for t := range s.first[x] {
					if !s.first[pr.LHS][t] {
						s.first[pr.LHS][t] = true
						changed = true
					}
				}
				if !s.nullable[x] {
					allNull = false
					break
				}
			}
			if allNull && !s.nullable[pr.LHS] {
				s.nullable[pr.LHS] = true
				changed = true
			}
		}
	}
	return s
}

func (s *sets) firstOf(seq []int, la int) map[int]bool {
	out := map[int]bool{}
	for _, x := range seq {
		for t := range s.first[x] {
			out[t] = true
		}
		if !s.nullable[x] {
			return out
		}
	}
	out[la] = true
	return out
}

// ---------------------------------------------------------------------------
// canonical LR(1) -> LALR(1)

type item struct{ P, D, LA int }

type RefAction struct {
	Shift  int   // merged state or -1
	Reduce []int // production indices (sorted, unique)
	Accept bool
}

type RefLALR struct {
	P        *Plain
	NStates  int
	Actions  []map[int]*RefAction // per merged state: terminal -> action set (pre-resolution)
	Goto     []map[int]int        // per merged state: nonterminal -> state
	Resolved []map[int]*RefAction // after documented precedence rule (single action where resolvable)
	Conflict bool
	// KnownRight marks (state,terminal) entries resolved as shift because of equal-level @right
	RightShift map[[2]int]int // value: the production lox reduces when it reads @right as @left
	TooBig     bool
	ShiftProds []map[int][]int // state -> terminal -> productions wanting the shift
	// Unspec marks (state,terminal) entries whose resolution the documentation
	// does not define (equal level, mixed associativity): either action is accepted.
	Unspec map[[2]int]bool
	// LR1Conflict: the canonical LR(1) automaton already has a state with two
	// actions on one lookahead (ignoring precedence).
	LR1Conflict bool
	UnspecAlt   map[[2]int]int
	NCanon      int
	// Kinds of conflicts seen before resolution: "sr", "rr", and after: "prec-resolved", "unresolved".
	Kinds map[string]int
}

func closure(p *Plain, s *sets, items map[item]bool) map[item]bool {
	work := make([]item, 0, len(items))
	for it := range items {
		work = append(work, it)
	}
	for len(work) > 0 {
		it := work[len(work)-1]
		work = work[:len(work)-1]
		pr := p.Prods[it.P]
		if it.D >= len(pr.RHS) {
			continue
		}
		b := pr.RHS[it.D]
		if p.IsTerm(b) {
			continue
		}
		las := s.firstOf(pr.RHS[it.D+1:], it.LA)
		for _, q := range p.ByLHS[b] {
			for la := range las {
				n := item{q, 0, la}
				if !items[n] {
					items[n] = true
					work = append(work, n)
				}
			}
		}
	}
	return items
}

func keyFull(items map[item]bool) string {
	ks := make([]item, 0, len(items))
	for it := range items {
		ks = append(ks, it)
	}
	sort.Slice(ks, func(i, j int) bool {
		a, b := ks[i], ks[j]
		if a.P != b.P {
			return a.P < b.P
		}
		if a.D != b.D {
			return a.D < b.D
		}
		return a.LA < b.LA
	})
	var sb strings.Builder
	for _, it := range ks {
		fmt.Fprintf(&sb, "%d.%d.%d;", it.P, it.D, it.LA)
	}
	return sb.String()
}

func keyCore(items map[item]bool) string {
	seen := map[[2]int]bool{}
	var ks [][2]int
	for it := range items {
		k := [2]int{it.P, it.D}
		if !seen[k] {
			seen[k] = true
			ks = append(ks, k)
		}
	}
	sort.Slice(ks, func(i, j int) bool {
		if ks[i][0] != ks[j][0] {
			return ks[i][0] < ks[j][0]
		}
		return ks[i][1] < ks[j][1]
	})
	var sb strings.Builder
	for _, k := range ks {
		fmt.Fprintf(&sb, "%d.%d;", k[0], k[1])
	}
	return sb.String()
}

func BuildRef(p *Plain, maxStates int) *RefLALR {
	s := p.sets()
	type st struct {
		items map[item]bool
		trans map[int]int
	}
	var states []*st
	index := map[string]int{}
	start := closure(p, s, map[item]bool{{0, 0, 0}: true})
	states = append(states, &st{items: start, trans: map[int]int{}})
	index[keyFull(start)] = 0
	for i := 0; i < len(states); i++ {
		if len(states) > maxStates {
			return &RefLALR{P: p, TooBig: true}
		}
		cur := states[i]
		next := map[int]map[item]bool{}
		for it := range cur.items {
			pr := p.Prods[it.P]
			if it.D < len(pr.RHS) {
				x := pr.RHS[it.D]
				if next[x] == nil {
					next[x] = map[item]bool{}
				}
				next[x][item{it.P, it.D + 1, it.LA}] = true
			}
		}
		syms := make([]int, 0, len(next))
		for x := range next {
			syms = append(syms, x)
		}
		sort.Ints(syms)
		for _, x := range syms {
			c := closure(p, s, next[x])
			k := keyFull(c)
			j, ok := index[k]
			if !ok {
				j = len(states)
				index[k] = j
				states = append(states, &st{items: c, trans: map[int]int{}})
			}
			cur.trans[x] = j
		}
	}
	lr1Conflict := false
	for _, stt := range states {
		reds := map[int]int{}
		shifts := map[int]bool{}
		for it := range stt.items {
			pr := p.Prods[it.P]
			if it.D == len(pr.RHS) {
				reds[it.LA]++
			} else if x := pr.RHS[it.D]; p.IsTerm(x) {
				shifts[x] = true
			}
		}
		for la, n := range reds {
			if n > 1 || shifts[la] {
				lr1Conflict = true
			}
		}
	}
	// merge by core
	coreIdx := map[string]int{}
	merged := make([]int, len(states))
	var mitems []map[item]bool
	for i, stt := range states {
		k := keyCore(stt.items)
		m, ok := coreIdx[k]
		if !ok {
			m = len(mitems)
			coreIdx[k] = m
			mitems = append(mitems, map[item]bool{})
		}
		merged[i] = m
		for it := range stt.items {
			mitems[m][it] = true
		}
	}
	r := &RefLALR{P: p, NStates: len(mitems), RightShift: map[[2]int]int{}, Unspec: map[[2]int]bool{}, LR1Conflict: lr1Conflict, NCanon: len(states), Kinds: map[string]int{}}
	r.Actions = make([]map[int]*RefAction, len(mitems))
	r.Goto = make([]map[int]int, len(mitems))
	r.ShiftProds = make([]map[int][]int, len(mitems))
	for m := range mitems {
		r.Actions[m] = map[int]*RefAction{}
		r.Goto[m] = map[int]int{}
		r.ShiftProds[m] = map[int][]int{}
	}
	for i, stt := range states {
		m := merged[i]
		for x, j := range stt.trans {
			if p.IsTerm(x) {
				a := r.act(m, x)
				a.Shift = merged[j]
			} else {
				r.Goto[m][x] = merged[j]
			}
		}
	}
	for m, items := range mitems {
		for it := range items {
			pr := p.Prods[it.P]
			if it.D == len(pr.RHS) {
				a := r.act(m, it.LA)
				if it.P == 0 {
					a.Accept = true
				} else if !containsInt(a.Reduce, it.P) {
					a.Reduce = append(a.Reduce, it.P)
					sort.Ints(a.Reduce)
				}
			} else if x := pr.RHS[it.D]; p.IsTerm(x) {
				if !containsInt(r.ShiftProds[m][x], it.P) {
					r.ShiftProds[m][x] = append(r.ShiftProds[m][x], it.P)
				}
			}
		}
	}
	r.resolve()
	return r
}

func containsInt(xs []int, x int) bool {
	for _, y := range xs {
		if x == y {
			return true
		}
	}
	return false
}

func (r *RefLALR) act(m, t int) *RefAction {
	a := r.Actions[m][t]
	if a == nil {
		a = &RefAction{Shift: -1}
		r.Actions[m][t] = a
	}
	return a
}

// String renders an action set.
func (a *RefAction) String(p *Plain) string {
	var parts []string
	if a.Accept {
		parts = append(parts, "accept")
	}
	if a.Shift >= 0 {
		parts = append(parts, fmt.Sprintf("shift %d", a.Shift))
	}
	for _, q := range a.Reduce {
		parts = append(parts, fmt.Sprintf("reduce %q", p.Prods[q].Key))
	}
	return "{" + strings.Join(parts, ", ") + "}"
}

func (a *RefAction) Count() int { return a.count() }

func (a *RefAction) count() int {
	n := len(a.Reduce)
	if a.Shift >= 0 {
		n++
	}
	if a.Accept {
		n++
	}
	return n
}

// resolve applies the documented precedence rule.
func (r *RefLALR) resolve() {
	p := r.P
	r.Resolved = make([]map[int]*RefAction, r.NStates)
	for m := 0; m < r.NStates; m++ {
		r.Resolved[m] = map[int]*RefAction{}
		for t, a := range r.Actions[m] {
			if a.count() == 1 {
				r.Resolved[m][t] = a
				continue
			}
			if len(a.Reduce) > 1 || (a.Accept && len(a.Reduce) > 0) {
				r.Kinds["rr"]++
			}
			if a.Shift >= 0 && (len(a.Reduce) > 0 || a.Accept) {
				r.Kinds["sr"]++
			}
			ok := false
			if a.Shift >= 0 && len(a.Reduce) == 1 && !a.Accept {
				red := p.Prods[a.Reduce[0]]
				sp := r.ShiftProds[m][t]
				ok = red.Prec > 0 && len(sp) > 0
				level := 0
				mixed := false
				for i, q := range sp {
					pq := p.Prods[q]
					if pq.LHS != red.LHS || pq.Prec <= 0 {
						ok = false
					}
					if i == 0 {
						level = pq.Prec
					} else if pq.Prec != level {
						ok = false // several shifting productions of different levels: not resolvable
					}
					if pq.Right != red.Right {
						mixed = true
					}
				}
				if ok {
					r.Kinds["prec-resolved"]++
					switch {
					case level > red.Prec:
						r.Resolved[m][t] = &RefAction{Shift: a.Shift}
					case level < red.Prec:
						r.Resolved[m][t] = &RefAction{Shift: -1, Reduce: a.Reduce}
					case mixed:
						// equal level, @left and @right mixed: the documentation does not say
						r.Resolved[m][t] = &RefAction{Shift: a.Shift}
						r.Unspec[[2]int{m, t}] = true
						r.UnspecReduce(m, t, a.Reduce[0])
					case red.Right:
						r.Resolved[m][t] = &RefAction{Shift: a.Shift}
						r.RightShift[[2]int{m, t}] = a.Reduce[0]
					default:
						r.Resolved[m][t] = &RefAction{Shift: -1, Reduce: a.Reduce}
					}
				}
			}
			if !ok {
				r.Conflict = true
				r.Kinds["unresolved"]++
				r.Resolved[m][t] = a
			}
		}
	}
}

// UnspecReduce remembers the alternative action of an unspecified entry.
func (r *RefLALR) UnspecReduce(m, t, prod int) {
	if r.UnspecAlt == nil {
		r.UnspecAlt = map[[2]int]int{}
	}
	r.UnspecAlt[[2]int{m, t}] = prod
}

// Parse runs the reference parser; returns acceptance.
func (r *RefLALR) Parse(w []int) bool {
	stack := []int{0}
	pos := 0
	for steps := 0; steps < 100000; steps++ {
		la := 0
		if pos < len(w) {
			la = w[pos]
		}
		a := r.Resolved[stack[len(stack)-1]][la]
		if a == nil || a.count() != 1 {
			return false
		}
		switch {
		case a.Accept:
			return true
		case a.Shift >= 0:
			stack = append(stack, a.Shift)
			pos++
		default:
			pr := r.P.Prods[a.Reduce[0]]
			stack = stack[:len(stack)-len(pr.RHS)]
			stack = append(stack, r.Goto[stack[len(stack)-1]][pr.LHS])
		}
	}
	panic("ref parse did not terminate")
}

// ---------------------------------------------------------------------------
// Earley recogniser

type eitem struct{ P, D, O int }

func Earley(p *Plain, w []int) bool {
	s := p.sets()
	n := len(w)
	sets := make([]map[eitem]bool, n+1)
	order := make([][]eitem, n+1)
	for i := range sets {
		sets[i] = map[eitem]bool{}
	}
	add := func(i int, it eitem) {
		if !sets[i][it] {
			sets[i][it] = true
			order[i] = append(order[i], it)
		}
	}
	add(0, eitem{0, 0, 0})
	for i := 0; i <= n; i++ {
		for k := 0; k < len(order[i]); k++ {
			it := order[i][k]
			pr := p.Prods[it.P]
			if it.D < len(pr.RHS) {
				x := pr.RHS[it.D]
				if p.IsTerm(x) {
					if i < n && w[i] == x {
						add(i+1, eitem{it.P, it.D + 1, it.O})
					}
				} else {
					for _, q := range p.ByLHS[x] {
						add(i, eitem{q, 0, i})
					}
					if s.nullable[x] {
						add(i, eitem{it.P, it.D + 1, it.O})
					}
				}
			} else {
				for _, jt := range order[it.O] {
					pj := p.Prods[jt.P]
					if jt.D < len(pj.RHS) && pj.RHS[jt.D] == pr.LHS {
						add(i, eitem{jt.P, jt.D + 1, jt.O})
					}
				}
			}
		}
	}
	return sets[n][eitem{0, 1, 0}]
}
