package cfgm

import (
	"fmt"
	"strings"
)

// Node is a derivation-tree node of the plain (desugared) grammar.
type Node struct {
	Prod int     // production index in Plain.Prods; -1 for a terminal leaf
	Sym  int     // symbol
	Tok  int     // for leaves: index into the input
	Kids []*Node // for inner nodes
}

// ParseTree runs the reference LALR(1) parser and returns the derivation tree
// (nil when w is rejected). Only meaningful when !r.Conflict.
func (r *RefLALR) ParseTree(w []int) *Node {
	type ent struct {
		st int
		n  *Node
	}
	stack := []ent{{0, nil}}
	pos := 0
	for steps := 0; steps < 1000000; steps++ {
		la := 0
		if pos < len(w) {
			la = w[pos]
		}
		a := r.Resolved[stack[len(stack)-1].st][la]
		if a == nil || a.count() != 1 {
			return nil
		}
		switch {
		case a.Accept:
			return stack[len(stack)-1].n
		case a.Shift >= 0:
			stack = append(stack, ent{a.Shift, &Node{Prod: -1, Sym: la, Tok: pos}})
			pos++
		default:
			pi := a.Reduce[0]
			pr := r.P.Prods[pi]
			n := &Node{Prod: pi, Sym: pr.LHS}
			k := len(pr.RHS)
			for _, e := range stack[len(stack)-k:] {
				n.Kids = append(n.Kids, e.n)
			}
			stack = stack[:len(stack)-k]
			stack = append(stack, ent{r.Goto[stack[len(stack)-1].st][pr.LHS], n})
		}
	}
	panic("ref parse did not terminate")
}

// ValidateTree checks node by node that n is a derivation tree of start symbol
// yielding exactly w (self-certification of the reference parser).
func (p *Plain) ValidateTree(n *Node, w []int) error {
	if n == nil {
		return fmt.Errorf("nil tree")
	}
	pos := 0
	var walk func(n *Node) error
	walk = func(n *Node) error {
		if n.Prod < 0 {
			if pos >= len(w) || w[pos] != n.Sym || n.Tok != pos {
				return fmt.Errorf("leaf %s at %d does not match input", p.Names[n.Sym], pos)
			}
			pos++
			return nil
		}
		pr := p.Prods[n.Prod]
		if pr.LHS != n.Sym || len(pr.RHS) != len(n.Kids) {
			return fmt.Errorf("node shape does not match production %s", pr.Key)
		}
		for i, k := range n.Kids {
			if k.Sym != pr.RHS[i] {
				return fmt.Errorf("child %d of %s is %s", i, pr.Key, p.Names[k.Sym])
			}
			if err := walk(k); err != nil {
				return err
			}
		}
		return nil
	}
	if n.Sym != p.Prods[0].RHS[0] {
		return fmt.Errorf("root is %s", p.Names[n.Sym])
	}
	if err := walk(n); err != nil {
		return err
	}
	if pos != len(w) {
		return fmt.Errorf("tree yields %d of %d tokens", pos, len(w))
	}
	return nil
}

// Span returns [lo,hi) token index range of n (lo==hi when empty; lo is then the
// position where the empty span sits).
func (n *Node) Span(at int) (lo, hi int) {
	if n.Prod < 0 {
		return n.Tok, n.Tok + 1
	}
	lo, hi = at, at
	first := true
	cur := at
	for _, k := range n.Kids {
		a, b := k.Span(cur)
		if a != b {
			if first {
				lo = a
				first = false
			}
			hi = b
			cur = b
		}
	}
	if first {
		return at, at
	}
	return lo, hi
}

// Viable reports whether w is a viable prefix of L(p) (some continuation makes
// it a sentence). Grammars here are productive by construction, so a non-empty
// final Earley set is equivalent to viability.
func Viable(p *Plain, w []int) bool {
	sets := earleySets(p, w)
	return len(sets[len(w)]) > 0
}

// FirstBad returns the index of the first token at which w stops being a prefix
// of any sentence: len(w) means EOF is the offending token, len(w)+1 means w is
// a sentence.
func FirstBad(p *Plain, w []int) int {
	sets := earleySets(p, w)
	for k := 1; k <= len(w); k++ {
		if len(sets[k]) == 0 {
			return k - 1
		}
	}
	if sets[len(w)][eitem{0, 1, 0}] {
		return len(w) + 1
	}
	return len(w)
}

func earleySets(p *Plain, w []int) []map[eitem]bool {
	s := p.sets()
	n := len(w)
	sets := make([]map[eitem]bool, n+1)
	order := make([][]eitem, n+1)
	for i := range sets {
		sets[i] = map[eitem]bool{}
	}
	add := func(i int, it eitem) {
		if !sets[i][it] {
			sets[i][it] = true
			order[i] = append(order[i], it)
		}
	}
	add(0, eitem{0, 0, 0})
	for i := 0; i <= n; i++ {
		for k := 0; k < len(order[i]); k++ {
			it := order[i][k]
			pr := p.Prods[it.P]
			if it.D < len(pr.RHS) {
				x := pr.RHS[it.D]
				if p.IsTerm(x) {
					if i < n && w[i] == x {
						add(i+1, eitem{it.P, it.D + 1, it.O})
					}
				} else {
					for _, q := range p.ByLHS[x] {
						add(i, eitem{q, 0, i})
					}
					if s.nullable[x] {
						add(i, eitem{it.P, it.D + 1, it.O})
					}
				}
			} else {
				for _, jt := range order[it.O] {
					pj := p.Prods[jt.P]
					if jt.D < len(pj.RHS) && pj.RHS[jt.D] == pr.LHS {
						add(i, eitem{jt.P, jt.D + 1, jt.O})
					}
				}
			}
		}
	}
	return sets
}

func (p *Plain) sets() *sets {
	if p.cache == nil {
		p.cache = analyse(p)
	}
	return p.cache
}

// Nullable reports whether symbol s derives the empty string.
func (p *Plain) Nullable(s int) bool { return p.sets().nullable[s] }

// Show renders a token-index sequence with names.
func (p *Plain) Show(w []int) string {
	parts := make([]string, len(w))
	for i, x := range w {
		if x >= 0 && x < len(p.Names) {
			parts[i] = p.Names[x]
		} else {
			parts[i] = fmt.Sprint(x)
		}
	}
	return strings.Join(parts, " ")
}

// HasNullableRule / HasRecursion feed the non-triviality rules.
func (p *Plain) HasNullableRule() bool {
	for i := p.NT; i < len(p.Names); i++ {
		if p.Nullable(i) {
			return true
		}
	}
	return false
}

func (p *Plain) HasRecursion() bool {
	// reachability over "uses" edges
	n := len(p.Names)
	adj := make([][]int, n)
	for _, pr := range p.Prods {
		for _, x := range pr.RHS {
			if !p.IsTerm(x) {
				adj[pr.LHS] = append(adj[pr.LHS], x)
			}
		}
	}
	for s := p.NT; s < n; s++ {
		seen := map[int]bool{}
		stack := append([]int(nil), adj[s]...)
		for len(stack) > 0 {
			x := stack[len(stack)-1]
			stack = stack[:len(stack)-1]
			if x == s {
				return true
			}
			if seen[x] {
				continue
			}
			seen[x] = true
			stack = append(stack, adj[x]...)
		}
	}
	return false
}

// MinHeights returns for every symbol the height of its shortest derivation
// (terminals 0; unproductive nonterminals 1<<20).
func (p *Plain) MinHeights() []int {
	if p.heights != nil {
		return p.heights
	}
	const inf = 1 << 20
	h := make([]int, len(p.Names))
	for i := range h {
		if !p.IsTerm(i) {
			h[i] = inf
		}
	}
	for changed := true; changed; {
		changed = false
		for _, pr := range p.Prods {
			m := 0
			for _, x := range pr.RHS {
				if h[x] > m {
					m = h[x]
				}
			}
			if m < inf && m+1 < h[pr.LHS] {
				h[pr.LHS] = m + 1
				changed = true
			}
		}
	}
	p.heights = h
	return h
}
