package ev

import (
	"flag"
	"fmt"
	"strings"
	"sync"

	"pgregory.net/rapid"
)

// capTB lets rapid.Check run outside *testing.T control: failures are captured
// instead of ending the goroutine.
type capTB struct {
	mu     sync.Mutex
	name   string
	failed bool
	log    []string
}

func (c *capTB) Helper()      {}
func (c *capTB) Name() string { return c.name }
func (c *capTB) add(s string) {
	c.mu.Lock()
	if len(c.log) < 200 {
		c.log = append(c.log, s)
	}
	c.mu.Unlock()
}
func (c *capTB) Logf(format string, args ...any) { c.add(fmt.Sprintf(format, args...)) }
func (c *capTB) Log(args ...any)                 { c.add(fmt.Sprint(args...)) }
func (c *capTB) Skipf(format string, args ...any) {
	panic("skip outside property")
}
func (c *capTB) Skip(args ...any) { panic("skip outside property") }
func (c *capTB) SkipNow()         { panic("skip outside property") }
func (c *capTB) Errorf(format string, args ...any) {
	c.mu.Lock()
	c.failed = true
	c.mu.Unlock()
	c.add(fmt.Sprintf(format, args...))
}
func (c *capTB) Error(args ...any) {
	c.mu.Lock()
	c.failed = true
	c.mu.Unlock()
	c.add(fmt.Sprint(args...))
}
func (c *capTB) Fatalf(format string, args ...any) { c.Errorf(format, args...) }
func (c *capTB) Fatal(args ...any)                 { c.Error(args...) }
func (c *capTB) FailNow()                          {}
func (c *capTB) Fail() {
	c.mu.Lock()
	c.failed = true
	c.mu.Unlock()
}
func (c *capTB) Failed() bool {
	c.mu.Lock()
	defer c.mu.Unlock()
	return c.failed
}

// Failure is a falsified case, already minimised by rapid.
type Failure struct {
	Case  any    // the last failing case recorded by the property (rapid runs the minimum last)
	Msg   string // message given to Fail
	Log   string // rapid's report
	Shard int
}

// FailFunc is handed to properties; it records the case and falsifies the
// current rapid test (does not return).
type FailFunc func(c any, format string, args ...any)

// Check runs prop for n generated cases split over `shards` goroutines, each a
// rapid.Check of its own with a seed derived from the run seed. It returns the
// first falsified (and shrunk) case, or nil. Every random choice comes from the
// *rapid.T.
func (r *Run) Check(name string, n, shards int, prop func(rt *rapid.T, fail FailFunc)) *Failure {
	if shards < 1 {
		shards = 1
	}
	if n < shards {
		shards = 1
	}
	per := (n + shards - 1) / shards
	SetChecks(per)
	fails := make([]*Failure, shards)
	var wg sync.WaitGroup
	for k := 0; k < shards; k++ {
		k := k
		seed := uint64(r.Seed)*7919 + uint64(k)*1000003 + uint64(hash8(r.ID + "/" + name)[0])
		if seed == 0 {
			seed = 1
		}
		flag.Set("rapid.seed", fmt.Sprint(seed))
		started := make(chan struct{})
		var once sync.Once
		wg.Add(1)
		go func() {
			defer wg.Done()
			defer once.Do(func() { close(started) })
			tb := &capTB{name: fmt.Sprintf("%s/%s/shard%d", r.ID, name, k)}
			var last *Failure
			rapid.Check(tb, func(rt *rapid.T) {
				once.Do(func() { close(started) })
				prop(rt, func(c any, format string, args ...any) {
					last = &Failure{Case: c, Msg: fmt.Sprintf(format, args...), Shard: k}
					rt.Fatalf("%s", last.Msg)
				})
			})
			if tb.Failed() {
				if last == nil {
					last = &Failure{Msg: "rapid reported a failure outside the property (panic?)", Shard: k}
				}
				last.Log = strings.Join(tb.log, "\n")
				fails[k] = last
			}
		}()
		<-started
	}
	wg.Wait()
	for _, f := range fails {
		if f != nil {
			return f
		}
	}
	return nil
}
