// Package ev holds what every property check shares: run configuration
// (tier, seed), evidence accounting, violation / known-finding reporting and
// replay files.
package ev

import (
	"crypto/sha256"
	"encoding/hex"
	"encoding/json"
	"flag"
	"fmt"
	"os"
	"path/filepath"
	"sort"
	"strconv"
	"strings"
	"sync"
	"testing"
	"time"
)

var (
	flagTier   = flag.String("tier", envOr("VERIF_TIER", "quick"), "quick|thorough")
	flagSeed   = flag.Int64("seed", envInt("VERIF_SEED", 1), "seed (0 is remapped to 1)")
	flagReplay = flag.String("replay", "", "replay file: re-evaluate this saved case only")
	flagScale  = flag.Float64("scale", 1, "multiply case counts (development aid)")
)

func envOr(k, d string) string {
	if v := os.Getenv(k); v != "" {
		return v
	}
	return d
}

func envInt(k string, d int64) int64 {
	if v := os.Getenv(k); v != "" {
		if n, err := strconv.ParseInt(v, 10, 64); err == nil {
			return n
		}
	}
	return d
}

// Root is /verif (overridable for development).
func Root() string { return envOr("VERIF_ROOT", "/verif") }

// RepoDir is the tree under test.
func RepoDir() string { return envOr("VERIF_REPO", "/repo") }

type Finding struct {
	Property  string `json:"property"`
	ID        string `json:"id"`
	Status    string `json:"status"` // "known" or "fixed"
	Line      string `json:"line"`
	Signature string `json:"signature,omitempty"`
}

type findingsFile struct {
	Findings []Finding `json:"findings"`
}

// Run accumulates the evidence of one check execution.
type Run struct {
	mu          sync.Mutex
	ID          string
	Tier        string
	Seed        int64
	Replay      string
	start       time.Time
	evals       int64
	nontriv     map[[8]byte]struct{}
	classes     map[string]int64
	samples     []any
	sampleKinds map[string]int
	Rule        string
	Assumptions []string
	violations  int
	violKeys    map[string]bool
	knownHits   map[string]int64
	knownWhat   map[string]string
	Extra       map[string]any
	findings    []Finding
	Exhaustive  bool
	inconcl     []string
}

// Start reads the flags. Must be called from a test function.
func Start(id string) *Run {
	if !flag.Parsed() {
		flag.Parse()
	}
	seed := *flagSeed
	if seed == 0 {
		seed = 1
	}
	if seed < 0 {
		seed = -seed
	}
	r := &Run{
		ID: id, Tier: *flagTier, Seed: seed, Replay: *flagReplay, start: time.Now(),
		nontriv: map[[8]byte]struct{}{}, classes: map[string]int64{}, sampleKinds: map[string]int{},
		violKeys: map[string]bool{}, knownHits: map[string]int64{}, knownWhat: map[string]string{},
		Extra: map[string]any{},
	}
	if r.Tier != "quick" && r.Tier != "thorough" {
		r.Tier = "quick"
	}
	var ff findingsFile
	if b, err := os.ReadFile(filepath.Join(Root(), "known_findings.json")); err == nil {
		if err := json.Unmarshal(b, &ff); err != nil {
			fmt.Printf("HARNESS-ERROR: known_findings.json: %v\n", err)
			os.Exit(2)
		}
	}
	for _, f := range ff.Findings {
		if f.Property == id {
			r.findings = append(r.findings, f)
		}
	}
	// rapid: deterministic seed, no stale fail files.
	flag.Set("rapid.seed", strconv.FormatInt(seed, 10))
	flag.Set("rapid.nofailfile", "true")
	os.RemoveAll("testdata/rapid")
	return r
}

func (r *Run) Thorough() bool { return r.Tier == "thorough" }

// N picks a case count by tier (scaled by -scale).
func (r *Run) N(quick, thorough int) int {
	n := quick
	if r.Thorough() {
		// the thorough tier is bounded so that all 19 checks finish within the session: at most
		// eight times the quick tier's case count (the per-check figures were written before the
		// checks grew their second and third parts)
		n = min(thorough, quick*8)
	}
	n = int(float64(n) * *flagScale)
	if n < 1 {
		n = 1
	}
	return n
}

// SetChecks sets rapid's case count for the next rapid.Check.
func SetChecks(n int) { flag.Set("rapid.checks", strconv.Itoa(n)) }

// SetRapidSeed overrides rapid's seed (used to re-enter a batch case eagerly).
func SetRapidSeed(s uint64) { flag.Set("rapid.seed", strconv.FormatUint(s, 10)) }

func SetShrinkTime(d time.Duration) { flag.Set("rapid.shrinktime", d.String()) }

func (r *Run) Eval(n int) {
	r.mu.Lock()
	r.evals += int64(n)
	r.mu.Unlock()
}

func (r *Run) Evals() int64 {
	r.mu.Lock()
	defer r.mu.Unlock()
	return r.evals
}

func hash8(s string) [8]byte {
	h := sha256.Sum256([]byte(s))
	var k [8]byte
	copy(k[:], h[:8])
	return k
}

// Nontrivial records one non-trivial case by its identity.
func (r *Run) Nontrivial(key string) {
	k := hash8(key)
	r.mu.Lock()
	r.nontriv[k] = struct{}{}
	r.mu.Unlock()
}

func (r *Run) NontrivialCount() int {
	r.mu.Lock()
	defer r.mu.Unlock()
	return len(r.nontriv)
}

// Class counts generator / outcome classes (the distribution is part of evidence).
func (r *Run) Class(name string) { r.ClassN(name, 1) }

func (r *Run) ClassN(name string, n int) {
	r.mu.Lock()
	r.classes[name] += int64(n)
	r.mu.Unlock()
}

func (r *Run) ClassCount(name string) int64 {
	r.mu.Lock()
	defer r.mu.Unlock()
	return r.classes[name]
}

// Sample keeps up to 3 samples per kind (max 12 in total).
func (r *Run) Sample(kind string, v any) {
	r.mu.Lock()
	defer r.mu.Unlock()
	if r.sampleKinds[kind] >= 3 || len(r.samples) >= 12 {
		return
	}
	r.sampleKinds[kind]++
	r.samples = append(r.samples, map[string]any{"kind": kind, "case": v})
}

// Known reports whether a finding id is listed as known (status "known") for this property.
func (r *Run) Known(id string) bool {
	for _, f := range r.findings {
		if f.ID == id && f.Status == "known" {
			return true
		}
	}
	return false
}

// KnownHit counts a failing case that matched the signature of a listed known finding.
func (r *Run) KnownHit(id, what string) {
	r.mu.Lock()
	r.knownHits[id]++
	if r.knownWhat[id] == "" {
		r.knownWhat[id] = what
	}
	r.mu.Unlock()
}

// Inconclusive records a skipped / capped case (never a violation).
func (r *Run) Inconclusive(what string) {
	r.mu.Lock()
	r.classes["inconclusive:"+what]++
	r.mu.Unlock()
}

// HarnessError aborts with exit status 2 (mapped by the driver).
func (r *Run) HarnessError(format string, args ...any) {
	fmt.Printf("HARNESS-ERROR: property=%s %s\n", r.ID, fmt.Sprintf(format, args...))
	if out := os.Getenv("VERIF_FUZZ_OUT"); out != "" {
		// inside a native fuzz worker: leave a note for the parent, never touch the evidence
		os.WriteFile(filepath.Join(out, fmt.Sprintf("harness-error-%d.log", os.Getpid())), []byte(fmt.Sprintf(format, args...)), 0o644)
		os.Exit(2)
	}
	r.writeEvidence()
	os.Exit(2)
}

// Violation saves a replay file and prints the VIOLATION line. dedupKey avoids
// reporting the same root cause many times in one run.
func (r *Run) Violation(dedupKey string, replay any) string {
	r.mu.Lock()
	defer r.mu.Unlock()
	if dedupKey != "" && r.violKeys[dedupKey] {
		r.violations++
		return ""
	}
	r.violKeys[dedupKey] = true
	r.violations++
	b, err := json.MarshalIndent(map[string]any{"property": r.ID, "what": dedupKey, "case": replay}, "", " ")
	if err != nil {
		b = []byte(fmt.Sprintf("{\"property\":%q,\"what\":%q}", r.ID, dedupKey))
	}
	h := sha256.Sum256(b)
	dir := envOr("VERIF_REPLAY_DIR", filepath.Join(Root(), "replays"))
	os.MkdirAll(dir, 0o755)
	path := filepath.Join(dir, fmt.Sprintf("%s-%s.json", r.ID, hex.EncodeToString(h[:6])))
	if r.Replay != "" {
		path = r.Replay
	} else if err := os.WriteFile(path, b, 0o644); err != nil {
		fmt.Printf("HARNESS-WARNING: cannot write replay %s: %v\n", path, err)
	}
	fmt.Printf("VIOLATION property=%s replay=%s\n", r.ID, path)
	fmt.Printf("  detail: %s\n", oneLine(dedupKey, 400))
	return path
}

func oneLine(s string, n int) string {
	s = strings.ReplaceAll(s, "\n", " / ")
	if len(s) > n {
		s = s[:n] + "…"
	}
	return s
}

func (r *Run) Violations() int {
	r.mu.Lock()
	defer r.mu.Unlock()
	return r.violations
}

// CanonFiles lists the saved canonical cases of this property (replay tier):
// one per known / fixed finding plus shrunk cases of seeded mutants.
func (r *Run) CanonFiles() []string {
	m, _ := filepath.Glob(filepath.Join(Root(), "replays", "canon", r.ID+"-*.json"))
	sort.Strings(m)
	return m
}

// LoadReplay reads the "case" member of a replay file into v.
func LoadReplay(path string, v any) error {
	b, err := os.ReadFile(path)
	if err != nil {
		return err
	}
	var w struct {
		Case json.RawMessage `json:"case"`
	}
	if err := json.Unmarshal(b, &w); err != nil {
		return err
	}
	return json.Unmarshal(w.Case, v)
}

func (r *Run) writeEvidence() {
	r.mu.Lock()
	defer r.mu.Unlock()
	cov := map[string]any{
		"evaluations":         r.evals,
		"distinct_nontrivial": len(r.nontriv),
		"rule":                r.Rule,
		"samples":             r.samples,
		"classes":             r.classes,
	}
	if r.Exhaustive {
		cov["exhaustive"] = true
	}
	if len(r.knownHits) > 0 {
		cov["excluded_as_known_findings"] = r.knownHits
	}
	for k, v := range r.Extra {
		cov[k] = v
	}
	if r.samples == nil {
		cov["samples"] = []any{}
	}
	e := map[string]any{
		"property_id": r.ID,
		"tier":        r.Tier,
		"seed":        r.Seed,
		"level":       "exploration",
		"coverage":    cov,
		"assumptions": r.Assumptions,
		"wall_s":      time.Since(r.start).Seconds(),
		"violations":  r.violations,
	}
	if r.Assumptions == nil {
		e["assumptions"] = []string{}
	}
	b, _ := json.MarshalIndent(e, "", " ")
	dir := envOr("VERIF_EVIDENCE_DIR", filepath.Join(Root(), "evidence"))
	os.MkdirAll(dir, 0o755)
	if r.Replay != "" {
		return // a replay is not a coverage run
	}
	if err := os.WriteFile(filepath.Join(dir, r.ID+".json"), b, 0o644); err != nil {
		fmt.Printf("HARNESS-WARNING: cannot write evidence: %v\n", err)
	}
}

// Finish prints KNOWN-FINDING lines, writes the evidence file and fails the
// test when violations were reported.
func (r *Run) Finish(t *testing.T) {
	ids := make([]string, 0, len(r.knownHits))
	for id := range r.knownHits {
		ids = append(ids, id)
	}
	sort.Strings(ids)
	for _, id := range ids {
		what := r.knownWhat[id]
		for _, f := range r.findings {
			if f.ID == id && f.Line != "" {
				what = f.Line
			}
		}
		fmt.Printf("KNOWN-FINDING: property=%s %s (id=%s, %d generated case(s) matched its signature)\n", r.ID, what, id, r.knownHits[id])
	}
	r.writeEvidence()
	fmt.Printf("SUMMARY property=%s tier=%s seed=%d evaluations=%d distinct_nontrivial=%d violations=%d wall=%.1fs\n",
		r.ID, r.Tier, r.Seed, r.evals, len(r.nontriv), r.violations, time.Since(r.start).Seconds())
	if r.violations > 0 {
		t.Fail()
	}
}

// RequireClass aborts as a harness error when a class the property depends on
// was starved (vacuity guard).
func (r *Run) RequireClass(name string, min int64) {
	if r.Replay != "" {
		return
	}
	min = int64(float64(min) * *flagScale)
	if r.ClassCount(name) < min {
		r.HarnessError("vacuity guard: class %q has %d cases, need >= %d", name, r.ClassCount(name), min)
	}
}
