package ev

import (
	"encoding/json"
	"fmt"
	"os"
	"os/exec"
	"path/filepath"
	"runtime/debug"
	"strings"
	"testing"
	"time"

	"pgregory.net/rapid"
)

// FuzzTarget turns a rapid property into the body of a native fuzz target
// (rapid.MakeFuzz: the fuzzer's bytes are the property's random choices, so the
// coverage-guided mutator steers the *structured* generator). When the property
// is falsified the case is written, as JSON, to $VERIF_FUZZ_OUT so that the
// parent check can re-evaluate it with its plain evaluator.
func FuzzTarget(f *testing.F, prop func(rt *rapid.T, fail FailFunc)) {
	out := os.Getenv("VERIF_FUZZ_OUT")
	if out != "" {
		// a worker that dies (fatal error, os.Exit) loses its stderr: keep the crash text
		if cf, err := os.OpenFile(filepath.Join(out, fmt.Sprintf("crash-%d.log", os.Getpid())), os.O_CREATE|os.O_WRONLY|os.O_APPEND, 0o644); err == nil {
			debug.SetCrashOutput(cf, debug.CrashOptions{})
		}
	}
	// seed corpus: a few byte strings of different lengths (xorshift; not part of any property)
	x := uint64(0x9E3779B97F4A7C15)
	for _, n := range []int{0, 64, 512, 2048, 8192} {
		b := make([]byte, n)
		for i := range b {
			x ^= x << 13
			x ^= x >> 7
			x ^= x << 17
			b[i] = byte(x >> 24)
		}
		f.Add(b)
	}
	f.Fuzz(rapid.MakeFuzz(func(rt *rapid.T) {
		prop(rt, func(c any, format string, args ...any) {
			msg := fmt.Sprintf(format, args...)
			if out != "" {
				if b, err := json.Marshal(map[string]any{"msg": msg, "case": c}); err == nil {
					tmp := filepath.Join(out, fmt.Sprintf(".case-%d.tmp", os.Getpid()))
					if os.WriteFile(tmp, b, 0o644) == nil {
						os.Rename(tmp, filepath.Join(out, fmt.Sprintf("case-%d.json", os.Getpid())))
					}
				}
			}
			rt.Fatalf("%s", msg)
		})
	}))
}

// FuzzCrash is what a native campaign found.
type FuzzCrash struct {
	Msg  string
	Case json.RawMessage // the falsified case as written by FuzzTarget (nil when only the crasher bytes exist)
	Out  string          // tail of the fuzzer's output
}

// NativeFuzz runs one coverage-guided campaign of the given fuzz target for d
// in a subprocess: the instrumented test binary named by $VERIF_FUZZBIN (built
// by ./check in the thorough tier), or this binary itself (then without
// coverage feedback, which the evidence records). It returns nil when nothing
// was falsified. A campaign that ends abnormally without a saved case is
// counted as inconclusive, never as a violation.
func (r *Run) NativeFuzz(target string, d time.Duration, workers int) *FuzzCrash {
	bin := os.Getenv("VERIF_FUZZBIN")
	guided := bin != ""
	if !guided {
		self, err := os.Executable()
		if err != nil {
			r.Inconclusive("native fuzzing: cannot locate the test binary")
			return nil
		}
		bin = self
	}
	work := filepath.Join(os.Getenv("VERIF_WORK"), "fuzz-"+target)
	os.RemoveAll(work)
	for _, s := range []string{"cache", "run", "out"} {
		os.MkdirAll(filepath.Join(work, s), 0o755)
	}
	defer os.RemoveAll(work)
	d = time.Duration(float64(d) * *flagScale)
	if d < 5*time.Second {
		d = 5 * time.Second
	}
	cmd := exec.Command(bin, "-test.run", "^$", "-test.fuzz", "^"+target+"$", "-test.fuzztime", d.String(),
		"-test.fuzzminimizetime", "20s", "-test.fuzzcachedir", filepath.Join(work, "cache"), "-test.parallel", fmt.Sprint(workers),
		"-tier", r.Tier, "-seed", fmt.Sprint(r.Seed))
	cmd.Dir = filepath.Join(work, "run")
	cmd.Env = append(os.Environ(), "VERIF_FUZZ_OUT="+filepath.Join(work, "out"))
	outb, err := cmd.CombinedOutput()
	out := string(outb)
	info := map[string]any{"target": target, "fuzztime": d.String(), "workers": workers, "coverage_guided": guided}
	for _, l := range strings.Split(out, "\n") {
		if strings.Contains(l, "execs:") {
			info["last_progress"] = strings.TrimSpace(l)
		}
	}
	r.mu.Lock()
	lst, _ := r.Extra["native_fuzz"].([]any)
	r.Extra["native_fuzz"] = append(lst, info)
	r.mu.Unlock()
	r.Class("native-fuzz-campaigns")
	if err == nil {
		return nil
	}
	tail := out
	if len(tail) > 1500 {
		tail = tail[len(tail)-1500:]
	}
	ms, _ := filepath.Glob(filepath.Join(work, "out", "case-*.json"))
	var newest string
	var nt time.Time
	for _, m := range ms {
		if st, e := os.Stat(m); e == nil && st.ModTime().After(nt) {
			newest, nt = m, st.ModTime()
		}
	}
	if newest == "" {
		r.Inconclusive("native fuzzing ended abnormally without a falsified case")
		info["abnormal_end"] = tail
		return nil
	}
	b, _ := os.ReadFile(newest)
	var w struct {
		Msg  string          `json:"msg"`
		Case json.RawMessage `json:"case"`
	}
	if json.Unmarshal(b, &w) != nil {
		r.Inconclusive("native fuzzing: unreadable case file")
		return nil
	}
	return &FuzzCrash{Msg: w.Msg, Case: w.Case, Out: tail}
}
