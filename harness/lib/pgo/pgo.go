// Package pgo writes the uniform, import-free user Go file for parser-behaviour
// checks (C01, C03, C09, C16) and computes, from the reference derivation tree,
// what that file's event log and result tree must look like.
package pgo

import (
	"fmt"
	"sort"
	"strings"

	. "github.com/dcaiafa/lox/verifharness/lib/cfgm"
)

type Opts struct {
	OnBounds bool
	// NamedSlices: parameters that receive a list are declared with the named
	// types nodesT / toksT (assignable from, but not identical to, []*nodeT / []Token).
	NamedSlices bool
	// BoundsLayout places _onBounds among the parser type's methods: 0 = before the
	// actions, 1 = after the actions followed by an unrelated helper method, 2 = between
	// the actions with helper methods on both sides.
	BoundsLayout int
	// NilMask: bit i set = rule i (if eligible, see NilRules) has an interface type (nilI) and its
	// actions return a nil interface value (the way side-effect-only actions do). The node is
	// still built and logged; the start rule's node is still kept in p.res.
	NilMask uint64
	// RecoverLA: the action of a production "@error TOKEN" hands that token back to the parser with
	// recoverLookahead when the token's input index is even (the documented use of that method).
	RecoverLA bool
	// TokMask: bit i set = rule i (if eligible, see TokRules) has result type Token: its actions
	// build and log their node as usual but RETURN the last Token they received (the way a rule
	// "name = path '.' ID" hands the identifier on). Parents and _onBounds see that token; the
	// span reported by _onBounds must still be the span of the reduction.
	TokMask uint64
	// AnyMask: bit i set = the actions of rule i (if eligible, see AnyRules) declare every parameter
	// as `any`, so that ALL productions of the rule with the same number of terms share one method
	// although their terms have different Go types (Token / *nodeT / []*nodeT ... at one position).
	AnyMask uint64
	// PtrDiscard: Token (a value type, the element type of TOKEN*! lists) declares Discard with a
	// pointer receiver; x*! must find it all the same (elements are addressable).
	PtrDiscard bool
}

// NilRules lists the rules that return nil under mask: rules with the bit set that are never the
// element of a sugar term (a nil element under x*! would have Discard() called on it, and an absent
// x? could not be told from a present one).
func NilRules(g *G, mask uint64) map[string]bool {
	out := map[string]bool{}
	if mask == 0 {
		return out
	}
	sugared := map[string]bool{}
	for _, r := range g.Rules {
		for _, p := range r.Prods {
			for _, t := range p.Terms {
				if t.Kind != KSym && t.Kind != KErr && !t.IsTok {
					sugared[t.Name] = true
				}
			}
		}
	}
	for i, r := range g.Rules {
		if i < 64 && mask&(1<<uint(i)) != 0 && !sugared[r.Name] {
			out[r.Name] = true
		}
	}
	return out
}

// TokRules lists the rules whose actions return a Token under mask: not the start rule, never the
// element of a sugar term, not a nil rule, and every production has a plain token term and no
// optional token (so that "the last parameter of type Token" is the same parameter for all
// productions sharing a method).
func TokRules(g *G, mask uint64, nilRules map[string]bool) map[string]bool {
	out := map[string]bool{}
	if mask == 0 {
		return out
	}
	sugared := map[string]bool{}
	for _, r := range g.Rules {
		for _, p := range r.Prods {
			for _, t := range p.Terms {
				if t.Kind != KSym && t.Kind != KErr && !t.IsTok {
					sugared[t.Name] = true
				}
			}
		}
	}
	for i, r := range g.Rules {
		if i == 0 || i >= 64 || mask&(1<<uint(i)) == 0 || sugared[r.Name] || nilRules[r.Name] {
			continue
		}
		ok := len(r.Prods) > 0
		for _, p := range r.Prods {
			plain := false
			for _, t := range p.Terms {
				if t.IsTok && t.Name != "ERROR" && t.Kind == KSym {
					plain = true
				}
				if t.IsTok && t.Kind == KOpt {
					ok = false
				}
			}
			ok = ok && plain
		}
		if ok {
			out[r.Name] = true
		}
	}
	return out
}

// AnyRules lists the rules whose action parameters are all declared `any` under mask: rules
// without @error terms (their actions read the Error's fields) that do not return a Token.
func AnyRules(g *G, mask uint64, tokRules map[string]bool) map[string]bool {
	out := map[string]bool{}
	for i, r := range g.Rules {
		if i >= 64 || mask&(1<<uint(i)) == 0 || tokRules[r.Name] {
			continue
		}
		ok := true
		for _, p := range r.Prods {
			for _, t := range p.Terms {
				if t.Kind == KErr || t.Name == "ERROR" {
					ok = false
				}
			}
		}
		if ok {
			out[r.Name] = true
		}
	}
	return out
}

// ParamType is the declared parameter type for a term under o.
func ParamType(t Term, o Opts) string {
	g := GoType(t)
	if o.NamedSlices {
		switch g {
		case "[]*nodeT":
			return "nodesT"
		case "[]Token":
			return "toksT"
		}
	}
	return g
}

// GoType is the Go type the uniform action file uses for a term.
func GoType(t Term) string {
	switch t.Kind {
	case KErr:
		return "Error"
	case KSym, KOpt:
		if t.Name == "ERROR" {
			return "Error"
		}
		if t.IsTok {
			return "Token"
		}
		return "*nodeT"
	default:
		if t.Name == "ERROR" {
			return "[]Error"
		}
		if t.IsTok {
			return "[]Token"
		}
		return "[]*nodeT"
	}
}

const prelude = `package PKGNAME

type Token struct{ ID, Idx int }

func itoa(n int) string {
	if n < 0 {
		return "-" + itoa(-n)
	}
	if n < 10 {
		return string(rune('0' + n))
	}
	return itoa(n/10) + string(rune('0'+n%10))
}

// Discard is a deterministic function of the token kind (odd ids are dropped by *!).
func (t TOKRECV) Discard() bool { return t.ID%2 == 1 }

type nodeT struct {
	Rule string
	ID   int
	Kids []any
}

type nodesT []*nodeT
type toksT []Token

// nilI is the type of rules whose actions are side-effect-only: an interface nothing implements
// (so that it matches no other parameter), whose only value is the nil interface.
type nilI interface{ nilMarker() }

// Discard: nodes covering an even number of input tokens are dropped by *!.
func (n *nodeT) Discard() bool {
	var f []int
	frontier(n, &f)
	return len(f)%2 == 0
}

type prs struct {
	lox
	log      []string
	errs     int
	res      *nodeT
	seq      int
	steps    int
	limit    int
	firstErr int
	reads    int
	ntoks    int
	errToks  []int
	expected []string // Error.Expected of every Error an action received, as "tok:id,id,..."
}

func (p *prs) noteExpected(e Error) {
	s := itoa(e.Token.Idx) + ":"
	for i, x := range e.Expected {
		if i > 0 {
			s += ","
		}
		s += itoa(x)
	}
	p.expected = append(p.expected, s)
}

func (p *prs) step() {
	p.steps++
	if p.steps > p.limit {
		panic("STEPBOUND")
	}
}

type lexT struct {
	toks []int
	i    int
	p    *prs
}

func frontier(v any, out *[]int) {
	switch v := v.(type) {
	case Token:
		if v != (Token{}) {
			*out = append(*out, v.Idx)
		}
	case Error:
		*out = append(*out, -1)
	case *nodeT:
		if v != nil {
			for _, k := range v.Kids {
				frontier(k, out)
			}
		}
	case []Token:
		for _, k := range v {
			frontier(k, out)
		}
	case []*nodeT:
		for _, k := range v {
			frontier(k, out)
		}
	case nodesT:
		frontier([]*nodeT(v), out)
	case toksT:
		frontier([]Token(v), out)
	case []Error:
		for _, k := range v {
			frontier(k, out)
		}
	}
}

// Yield, when set by the driver before any parse starts, is called at every
// ReadToken (C18 uses it to add scheduling points).
var Yield func()

func (l *lexT) ReadToken() (Token, int) {
	if Yield != nil {
		Yield()
	}
	l.p.reads++
	if l.p.reads > len(l.toks)+50 {
		panic("READBOUND")
	}
	if l.i >= len(l.toks) {
		return Token{ID: 0, Idx: len(l.toks)}, EOF
	}
	t := Token{ID: l.toks[l.i], Idx: l.i}
	l.i++
	return t, t.ID
}

func show(v any) string {
	switch v := v.(type) {
	case Token:
		if v == (Token{}) {
			return "_"
		}
		return "t" + itoa(v.Idx)
	case Error:
		return "E" + itoa(v.Token.Idx)
	case *nodeT:
		if v == nil {
			return "nil"
		}
		s := v.Rule + "#" + itoa(v.ID) + "("
		for i, k := range v.Kids {
			if i > 0 {
				s += " "
			}
			s += show(k)
		}
		return s + ")"
	case []Token:
		s := "["
		for i, k := range v {
			if i > 0 {
				s += " "
			}
			s += show(k)
		}
		return s + "]"
	case []*nodeT:
		s := "["
		for i, k := range v {
			if i > 0 {
				s += " "
			}
			s += show(k)
		}
		return s + "]"
	case nodesT:
		return show([]*nodeT(v))
	case toksT:
		return show([]Token(v))
	case []Error:
		s := "["
		for i, k := range v {
			if i > 0 {
				s += " "
			}
			s += show(k)
		}
		return s + "]"
	case nil:
		return "<nil>"
	}
	return "?"
}

type Result struct {
	OK       bool
	Panic    string
	Reads    int
	Steps    int
	Errs     int
	FirstErr int
	ErrToks  []int
	Expected []string
	Tree     string
	Front    []int
	Log      []string
}

// Run parses one token-id sequence. limit bounds the number of action and
// ReadToken calls (a step bound, not a time limit).
func Run(toks []int, limit int) (r Result) {
	p := &prs{limit: limit, firstErr: -2, ntoks: len(toks)}
	defer func() {
		r.FirstErr, r.Reads, r.Errs, r.Steps = p.firstErr, p.reads, p.errs, p.steps
		r.ErrToks = p.errToks
		r.Expected = p.expected
		r.Log = p.log
		if x := recover(); x != nil {
			switch x := x.(type) {
			case string:
				r.Panic = x
			case error:
				r.Panic = x.Error()
			default:
				r.Panic = "panic"
			}
			if r.Panic == "" {
				r.Panic = "panic"
			}
		}
	}()
	ok := p.parse(&lexT{toks: toks, p: p})
	r.OK = ok
	if ok {
		frontier(p.res, &r.Front)
		r.Tree = show(p.res)
	}
	return
}
`

// UserGo renders the action file. Two productions of a rule with the same
// parameter types share one method (lox requires exactly one match).
func UserGo(g *G, o Opts) string {
	var b strings.Builder
	if o.PtrDiscard {
		b.WriteString(strings.Replace(prelude, "TOKRECV", "*Token", 1))
	} else {
		b.WriteString(strings.Replace(prelude, "TOKRECV", "Token", 1))
	}
	const onBoundsSrc = `
func (p *prs) _onBounds(r any, begin, end Token) {
	p.step()
	p.log = append(p.log, "B"+show(r)+"@"+itoa(begin.Idx)+":"+itoa(end.Idx))
}
`
	if o.OnBounds && o.BoundsLayout == 0 {
		b.WriteString(onBoundsSrc)
	}
	nRules := len(g.Rules)
	nilRules := NilRules(g, o.NilMask)
	tokRules := TokRules(g, o.TokMask, nilRules)
	ptype := func(t Term) string {
		if t.Kind == KSym && !t.IsTok && nilRules[t.Name] {
			return "nilI"
		}
		if t.Kind == KSym && !t.IsTok && tokRules[t.Name] {
			return "Token"
		}
		return ParamType(t, o)
	}
	anyRules := AnyRules(g, o.AnyMask, tokRules)
	for ri, r := range g.Rules {
		ptype := ptype
		if anyRules[r.Name] {
			ptype = func(Term) string { return "any" }
		}
		if o.OnBounds && o.BoundsLayout == 2 && ri == nRules/2 {
			b.WriteString("\nfunc (p *prs) helperBefore() int { return p.seq }\n")
			b.WriteString(onBoundsSrc)
			b.WriteString("\nfunc (p *prs) helperBetween() int { return p.steps }\n")
		}
		seen := map[string]bool{}
		for _, p := range r.Prods {
			var params, kids, sig []string
			for i, t := range p.Terms {
				params = append(params, fmt.Sprintf("a%d %s", i, ptype(t)))
				kids = append(kids, fmt.Sprintf("a%d", i))
				sig = append(sig, ptype(t))
			}
			k := strings.Join(sig, ",")
			if seen[k] {
				continue
			}
			seen[k] = true
			rtype := "*nodeT"
			if nilRules[r.Name] {
				rtype = "nilI"
			}
			lastTok := -1
			if tokRules[r.Name] {
				rtype = "Token"
				for i, t := range p.Terms {
					if ptype(t) == "Token" {
						lastTok = i
					}
				}
			}
			fmt.Fprintf(&b, "\nfunc (p *prs) on_%s__s%d(%s) %s {\n", r.Name, len(seen), strings.Join(params, ", "), rtype)
			b.WriteString("\tp.step()\n")
			for i, t := range p.Terms {
				if t.Kind == KErr {
					fmt.Fprintf(&b, "\tp.errs++\n\tp.noteExpected(a%d)\n\tp.errToks = append(p.errToks, a%d.Token.Idx)\n\tif p.firstErr == -2 {\n\t\tp.firstErr = a%d.Token.Idx\n\t}\n", i, i, i)
				} else if t.Name == "ERROR" && t.Kind == KOpt {
					fmt.Fprintf(&b, "\tif a%d.Token != (Token{}) || a%d.Expected != nil {\n\t\tp.errs++\n\t\tp.noteExpected(a%d)\n\t\tp.errToks = append(p.errToks, a%d.Token.Idx)\n\t\tif p.firstErr == -2 {\n\t\t\tp.firstErr = a%d.Token.Idx\n\t\t}\n\t}\n", i, i, i, i, i)
				} else if t.Name == "ERROR" {
					fmt.Fprintf(&b, "\tfor _, e := range a%d {\n\t\tp.errs++\n\t\tp.noteExpected(e)\n\t\tp.errToks = append(p.errToks, e.Token.Idx)\n\t\tif p.firstErr == -2 {\n\t\t\tp.firstErr = e.Token.Idx\n\t\t}\n\t}\n", i)
				}
			}
			if o.RecoverLA && len(p.Terms) == 2 && p.Terms[0].Kind == KErr && p.Terms[1].Kind == KSym && p.Terms[1].IsTok {
				b.WriteString("\tif a1.Idx%2 == 0 {\n\t\tp.recoverLookahead(a1.ID, a1)\n\t\tp.log = append(p.log, \"R\"+itoa(a1.Idx))\n\t}\n")
			}
			fmt.Fprintf(&b, "\tp.seq++\n\tn := &nodeT{Rule: %q, ID: p.seq, Kids: []any{%s}}\n", r.Name, strings.Join(kids, ", "))
			b.WriteString("\tp.log = append(p.log, \"A#\"+itoa(n.ID))\n")
			if ri == 0 {
				b.WriteString("\tp.res = n\n")
			}
			if nilRules[r.Name] {
				b.WriteString("\t_ = n\n\treturn nil\n}\n")
			} else if lastTok >= 0 {
				fmt.Fprintf(&b, "\t_ = n\n\treturn a%d\n}\n", lastTok)
			} else {
				b.WriteString("\treturn n\n}\n")
			}
		}
	}
	if o.OnBounds && o.BoundsLayout == 1 {
		b.WriteString(onBoundsSrc)
		b.WriteString("\nfunc (p *prs) zzHelperAfter() int { return p.reads }\n")
	}
	return b.String()
}

// ParserDriverMain renders the driver main for a batch of parser packages.
// stdin: {"<pkg>": {"Limit": n, "Inputs": [[tok ids]...]}} ; stdout: {"<pkg>": [Result...]}.
func ParserDriverMain(pkgs []string) string {
	var d strings.Builder
	d.WriteString("package main\n\nimport (\n\t\"encoding/json\"\n\t\"fmt\"\n\t\"os\"\n\t\"strconv\"\n\t\"syscall\"\n\t\"time\"\n")
	for _, p := range pkgs {
		fmt.Fprintf(&d, "\t%s \"verifscratch/%s\"\n", p, p)
	}
	// A parse that spins inside the generated runtime calls neither an action nor ReadToken, so
	// the step bounds cannot stop it: every parse also runs under a guard. The guard is a budget
	// of CPU time, not of wall-clock time: the driver runs one parse at a time, so the CPU time
	// the process consumed since the parse began bounds what the parse itself consumed, and it
	// does not grow while a loaded machine keeps the process off the processor (a wall-clock
	// guard of 6 s reported a 4 749-token sentence as hanging when the load average was 66).
	// The driver runs with GOMAXPROCS=2 (idle garbage-collector workers of a 16-thread runtime
	// inflate the process's CPU time on a busy machine). A parse that has burnt GuardSeconds
	// CPU-seconds is reported as Panic "TIMEOUT"; pbatch then confirms it in a process of its own
	// under a budget six times larger before a check sees it (a genuinely spinning parse exhausts
	// any budget; a slow one finishes). Its goroutine keeps spinning and would be charged to the next
	// parse, so every remaining input of the process is marked SKIPPED and re-run by pbatch in a
	// fresh process. A parse that neither returns nor uses CPU for 10 minutes is "STALLED":
	// inconclusive, never a verdict.
	d.WriteString(`)

type job struct {
	Inputs [][]int
	Limits []int
}

var timeouts int

func cpuNow() time.Duration {
	var ru syscall.Rusage
	syscall.Getrusage(syscall.RUSAGE_SELF, &ru)
	return time.Duration(ru.Utime.Nano() + ru.Stime.Nano())
}

// budget of CPU time per parse (seconds), VERIF_GUARD_CPU overrides the default
var budget = func() time.Duration {
	n := ` + GuardSeconds + `
	if v, err := strconv.Atoi(os.Getenv("VERIF_GUARD_CPU")); err == nil && v > 0 {
		n = v
	}
	return time.Duration(n) * time.Second
}()

// guard: why="" when the parse returned, else TIMEOUT / STALLED
func guard(f func() any) (any, string) {
	ch := make(chan any, 1)
	go func() { ch <- f() }()
	c0, t0 := cpuNow(), time.Now()
	for {
		select {
		case r := <-ch:
			if c := cpuNow() - c0; c > time.Second {
				fmt.Fprintf(os.Stderr, "SLOW-PARSE cpu=%v wall=%v\n", c, time.Since(t0))
			}
			return r, ""
		case <-time.After(250 * time.Millisecond):
		}
		if cpuNow()-c0 >= budget {
			timeouts++
			return nil, "TIMEOUT"
		}
		if time.Since(t0) >= 15*time.Minute {
			timeouts++
			return nil, "STALLED"
		}
	}
}

func main() {
	var in map[string]job
	if err := json.NewDecoder(os.Stdin).Decode(&in); err != nil {
		panic(err)
	}
	out := map[string]any{}
`)
	for _, p := range pkgs {
		fmt.Fprintf(&d, "\tif j, ok := in[%q]; ok {\n\t\trs := []any{}\n\t\tfor i, w := range j.Inputs {\n\t\t\tif timeouts >= 1 {\n\t\t\t\trs = append(rs, %s.Result{Panic: \"SKIPPED\"})\n\t\t\t\tcontinue\n\t\t\t}\n\t\t\tw, lim := w, j.Limits[i]\n\t\t\tr, why := guard(func() any { return %s.Run(w, lim) })\n\t\t\tif why != \"\" {\n\t\t\t\tr = %s.Result{Panic: why}\n\t\t\t}\n\t\t\trs = append(rs, r)\n\t\t}\n\t\tout[%q] = rs\n\t}\n", p, p, p, p, p)
	}
	d.WriteString("\tjson.NewEncoder(os.Stdout).Encode(out)\n\tos.Exit(0)\n}\n")
	return d.String()
}

// GuardSeconds is the CPU-time budget per parse in the driver, in seconds (a string because it is
// pasted into the driver's source).
var GuardSeconds = "20"

// Result mirrors the generated package's Result.
type Result struct {
	OK       bool
	Panic    string
	Reads    int
	Steps    int
	Errs     int
	FirstErr int
	ErrToks  []int
	Expected []string
	Tree     string
	Front    []int
	Log      []string
	// Skipped: not run (another input of the same package did not terminate); checks ignore it.
	Skipped bool `json:",omitempty"`
}

// ---------------------------------------------------------------------------
// Expected values from the reference derivation tree.

type val struct {
	kind  byte // 't' token, 'n' node, 'l' list, 'z' zero token, 'Z' nil node, 'e' error
	tok   int
	node  *unode
	elems []*val
	isTok bool // element type of a list / optional
}

type unode struct {
	rule string
	id   int
	kids []*val
	ntok int // tokens covered
}

func (v *val) show() string {
	switch v.kind {
	case 't':
		return fmt.Sprintf("t%d", v.tok)
	case 'z':
		return "_"
	case 'Z':
		return "nil"
	case 'N':
		return "<nil>"
	case 'e':
		return fmt.Sprintf("E%d", v.tok)
	case 'n':
		parts := make([]string, len(v.node.kids))
		for i, k := range v.node.kids {
			parts[i] = k.show()
		}
		return fmt.Sprintf("%s#%d(%s)", v.node.rule, v.node.id, strings.Join(parts, " "))
	case 'l':
		parts := make([]string, len(v.elems))
		for i, k := range v.elems {
			parts[i] = k.show()
		}
		return "[" + strings.Join(parts, " ") + "]"
	}
	return "?"
}

// frontier counts the tokens and errors reachable from a value (zero values count nothing).
func (v *val) frontier() int {
	switch v.kind {
	case 't', 'e':
		return 1
	case 'n':
		return v.node.ntok
	case 'l':
		n := 0
		for _, e := range v.elems {
			n += e.frontier()
		}
		return n
	}
	return 0
}

func (v *val) discard(w []int) bool {
	switch v.kind {
	case 't':
		return w[v.tok]%2 == 1
	case 'n':
		return v.node.ntok%2 == 0
	}
	return false
}

// Expect is what a successful parse of w must produce.
type Expect struct {
	Tree      string   // show() of the start action's result
	Events    []string // action ("A#id") and bounds ("B<value>@lo:hi") events in order; bounds events of *! helpers start with "B~"
	Nodes     int      // user nodes
	Sugar     int      // non-empty sugar slots
	MaxAr     int      // largest arity of a user production used
	EdgeEmpty bool     // some node has an empty child at its left or right edge (C16 non-triviality)
}

// Expected walks the validated reference tree in reduction order.
func Expected(p *Plain, tree *Node, w []int) *Expect { return ExpectedNil(p, tree, w, nil) }

// ExpectedNil is Expected for an action file rendered with a NilMask: nilRules are the names
// NilRules returned for it.
func ExpectedNil(p *Plain, tree *Node, w []int, nilRules map[string]bool) *Expect {
	return ExpectedNilTok(p, tree, w, nilRules, nil)
}

// ExpectedNilTok additionally takes the rules whose actions return their last Token (TokRules).
func ExpectedNilTok(p *Plain, tree *Node, w []int, nilRules, tokRules map[string]bool) *Expect {
	ex := &Expect{}
	var top *val
	seq := 0
	var walk func(n *Node, at int) (*val, int, int) // value, lo, hi (token span, lo==hi when empty)
	walk = func(n *Node, at int) (*val, int, int) {
		if n.Prod < 0 {
			if n.Sym == 1 {
				return &val{kind: 'e', tok: n.Tok}, n.Tok, n.Tok + 1
			}
			return &val{kind: 't', tok: n.Tok}, n.Tok, n.Tok + 1
		}
		pr := p.Prods[n.Prod]
		kids := make([]*val, len(n.Kids))
		lo, hi := at, at
		cur := at
		first := true
		empties := make([]bool, len(n.Kids))
		for i, k := range n.Kids {
			v, a, b := walk(k, cur)
			kids[i] = v
			empties[i] = a == b
			if a != b {
				if first {
					lo = a
					first = false
				}
				hi = b
				cur = b
			}
		}
		if first {
			lo, hi = at, at
		}
		if len(empties) > 1 && !first && (empties[0] || empties[len(empties)-1]) {
			ex.EdgeEmpty = true
		}
		var v *val
		loose := false
		if pr.User {
			seq++
			// Discard() of a node counts the frontier of the node AS BUILT (values filtered out by
			// an inner *! are not part of it), exactly like the generated nodeT.Discard
			nf := 0
			for _, k := range kids {
				nf += k.frontier()
			}
			un := &unode{rule: p.Names[pr.LHS], id: seq, kids: kids, ntok: nf}
			// number of tokens covered counts real tokens only (frontier skips zero tokens; errors count as one entry)
			v = &val{kind: 'n', node: un}
			top = v
			if nilRules[un.rule] {
				// the action returns a nil interface: parents and _onBounds see <nil>
				v = &val{kind: 'N'}
			}
			if tokRules[un.rule] {
				// the action hands on the last Token it received
				for _, k := range kids {
					if k.kind == 't' {
						v = k
					}
				}
			}
			ex.Nodes++
			if len(kids) > ex.MaxAr {
				ex.MaxAr = len(kids)
			}
			ex.Events = append(ex.Events, fmt.Sprintf("A#%d", seq))
		} else {
			kind := p.HKind[pr.LHS]
			elemIsTok := func() bool {
				// element symbol is the last RHS symbol of the recursive production
				q := p.Prods[p.ByLHS[pr.LHS][0]]
				switch kind {
				case KOpt:
					return p.IsTerm(q.RHS[0])
				case KPlus, KPlusF, KList:
					return p.IsTerm(q.RHS[len(q.RHS)-1])
				}
				return false
			}
			switch kind {
			case KOpt:
				if len(kids) == 1 {
					v = kids[0]
				} else if elemIsTok() {
					v = &val{kind: 'z'}
				} else {
					v = &val{kind: 'Z'}
				}
			case KPlus, KList:
				if len(kids) == 1 {
					v = &val{kind: 'l', elems: []*val{kids[0]}}
				} else {
					v = &val{kind: 'l', elems: append(append([]*val{}, kids[0].elems...), kids[len(kids)-1])}
				}
			case KPlusF:
				loose = true
				var prev []*val
				e := kids[len(kids)-1]
				if len(kids) == 2 {
					prev = kids[0].elems
				}
				v = &val{kind: 'l', elems: append([]*val{}, prev...)}
				if !e.discard(w) {
					v.elems = append(v.elems, e)
				}
			case KStar, KStarF, KListOpt:
				loose = kind == KStarF
				if len(kids) == 1 {
					v = kids[0]
				} else {
					v = &val{kind: 'l'}
				}
			default: // S'
				v = kids[0]
			}
			if n.Prod == 0 {
				return v, lo, hi
			}
			if hi > lo && (v.kind == 'l' && len(v.elems) > 0 || v.kind == 't' || v.kind == 'n') {
				ex.Sugar++
			}
		}
		if hi > lo {
			tag := "B"
			if loose {
				tag = "B~"
			}
			ex.Events = append(ex.Events, fmt.Sprintf("%s%s@%d:%d", tag, v.show(), lo, hi-1))
		}
		return v, lo, hi
	}
	v, _, _ := walk(&Node{Prod: 0, Sym: p.Prods[0].LHS, Kids: []*Node{tree}}, 0)
	ex.Tree = v.show()
	if v.kind == 'N' && top != nil {
		// the start action keeps its node in p.res although it returns nil
		ex.Tree = top.show()
	}
	return ex
}

// SplitEvents separates action events from bounds events.
func SplitEvents(log []string) (actions, all []string) {
	for _, e := range log {
		if strings.HasPrefix(e, "A#") {
			actions = append(actions, e)
		}
	}
	return actions, log
}

// SortedNames returns package names in order.
func SortedNames(m map[string]bool) []string {
	var ks []string
	for k := range m {
		ks = append(ks, k)
	}
	sort.Strings(ks)
	return ks
}
