// Package loxb is the bridge to lox's in-process packages (front end, LALR
// construction, code generation). Nothing in here is an oracle.
package loxb

import (
	"fmt"
	gotoken "go/token"
	"os"
	"path/filepath"
	"runtime/debug"
	"sort"
	"strings"

	"github.com/dcaiafa/lox/internal/ast"
	"github.com/dcaiafa/lox/internal/base/errlogger"
	"github.com/dcaiafa/lox/internal/codegen"
	"github.com/dcaiafa/lox/internal/lexergen/mode"
	"github.com/dcaiafa/lox/internal/parser"
	"github.com/dcaiafa/lox/internal/parsergen/lr1"
	"github.com/dcaiafa/lox/verifharness/lib/cfgm"
)

// Lox is the result of running lox's front end in-process.
type Lox struct {
	OK       bool // front end + analysis succeeded (conflicts are reported separately in T)
	Stage    string
	Diag     string
	G        *lr1.Grammar
	T        *lr1.ParserTable
	Modes    map[string]*mode.Mode
	Panic    any
	PanicStk string
	Fset     *gotoken.FileSet
	Report   string
}

// File is one .lox source.
type File struct {
	Name string
	Text string
}

// Front runs Parse + Analyze + ConstructLALR the way codegen.ParseLox does
// (files in name order).
func Front(files []File) (res *Lox) {
	res = &Lox{Stage: "parse"}
	defer func() {
		if r := recover(); r != nil {
			res.Panic = r
			res.PanicStk = string(debug.Stack())
			res.OK = false
		}
	}()
	fs := append([]File(nil), files...)
	sort.Slice(fs, func(i, j int) bool { return fs[i].Name < fs[j].Name })
	fset := gotoken.NewFileSet()
	res.Fset = fset
	var sb strings.Builder
	errs := errlogger.New(fset, &sb)
	spec := new(ast.Spec)
	for _, f := range fs {
		file := fset.AddFile(f.Name, -1, len(f.Text))
		unit := parser.Parse(file, []byte(f.Text), errs)
		if errs.HasError() {
			res.Diag = sb.String()
			return
		}
		spec.Units = append(spec.Units, unit)
	}
	res.Stage = "analyze"
	ctx := ast.NewContext(fset, errs)
	ctx.Analyze(spec, ast.AllPasses)
	res.Diag = sb.String()
	if errs.HasError() {
		return
	}
	res.Stage = "lalr"
	res.G = ctx.Grammar
	res.Modes = ctx.LexerDFAs
	res.T = lr1.ConstructLALR(ctx.Grammar)
	if FrontReport {
		// what `lox --report` prints at this point (codegen/parse_lox.go), conflicts or not
		res.Stage = "report"
		var rep strings.Builder
		res.T.Print(&rep)
		var ms []*mode.Mode
		for _, m := range ctx.LexerDFAs {
			ms = append(ms, m)
		}
		sort.Slice(ms, func(i, j int) bool { return ms[i].Index < ms[j].Index })
		for _, m := range ms {
			m.DFA.Print(&rep)
		}
		res.Report = rep.String()
	}
	res.OK = true
	res.Stage = "done"
	return
}

// FrontReport makes Front also render the --report text (set by checks that want that path covered).
var FrontReport bool

// Front1 is Front for a single file.
func Front1(text string) *Lox { return Front([]File{{"g.lox", text}}) }

// GenResult is the outcome of the real codegen.Generate on a directory.
type GenResult struct {
	OK       bool
	Diag     string
	Report   string
	Panic    any
	PanicStk string
}

// Generate runs the real generator in-process on dir.
func Generate(dir string, report bool) (res GenResult) {
	defer func() {
		if r := recover(); r != nil {
			res.Panic = r
			res.PanicStk = string(debug.Stack())
			res.OK = false
		}
	}()
	fset := gotoken.NewFileSet()
	var sb, rep strings.Builder
	errs := errlogger.New(fset, &sb)
	cfg := &codegen.Config{Fset: fset, Errs: errs, Dir: dir}
	if report {
		cfg.Report = &rep
	}
	ok := codegen.Generate(cfg)
	res.OK = ok
	res.Diag = sb.String()
	res.Report = rep.String()
	return
}

// GenFiles are the three generated files.
var GenFiles = []string{"base.gen.go", "lexer.gen.go", "parser.gen.go"}

// ReadGen returns the generated files of dir (missing ones are absent from the map).
func ReadGen(dir string) map[string]string {
	out := map[string]string{}
	for _, n := range GenFiles {
		if b, err := os.ReadFile(filepath.Join(dir, n)); err == nil {
			out[n] = string(b)
		}
	}
	return out
}

func prodKey(p *lr1.Prod) string {
	return p.Rule.Name + " = " + strings.Join(lr1.TermNames(p.Terms), " ")
}

// Compare checks that lox's automaton is isomorphic to the reference LALR(1)
// automaton (after the documented precedence resolution). mism lists
// differences; known counts entries that differ only in the way the listed
// @right finding explains (reference says shift because of equal-level @right,
// lox reduces the production the reference would have reduced under @left).
func Compare(ref *cfgm.RefLALR, lx *Lox) (mism []string, known int) {
	p := ref.P
	nameIdx := map[string]int{}
	for i, n := range p.Names {
		nameIdx[n] = i
	}
	keyToProd := map[string]int{}
	for i, pr := range p.Prods {
		keyToProd[pr.Key] = i
	}
	t := lx.T
	pair := map[int]int{0: 0}
	rev := map[int]int{0: 0}
	queue := []int{0}
	link := func(r, l int, why string) {
		if pr, ok := pair[r]; ok {
			if pr != l {
				mism = append(mism, fmt.Sprintf("state map clash ref %d -> lox %d vs %d (%s)", r, pr, l, why))
			}
			return
		}
		if rr, ok := rev[l]; ok && rr != r {
			mism = append(mism, fmt.Sprintf("state map clash lox %d <- ref %d vs %d (%s)", l, rr, r, why))
			return
		}
		pair[r] = l
		rev[l] = r
		queue = append(queue, r)
	}
	for len(queue) > 0 && len(mism) < 5 {
		r := queue[0]
		queue = queue[1:]
		ls := t.States[pair[r]]
		am := t.Actions(ls)
		seen := map[int]bool{}
		for _, term := range am.Terminals() {
			ti, ok := nameIdx[term.Name]
			if !ok {
				mism = append(mism, "unknown terminal "+term.Name)
				continue
			}
			seen[ti] = true
			acts := am.Get(term)
			ra := ref.Resolved[r][ti]
			if ra == nil {
				mism = append(mism, fmt.Sprintf("state %d: lox has an extra action on %s", r, term.Name))
				continue
			}
			if acts.Len() != 1 {
				if ra.Count() == 1 {
					mism = append(mism, fmt.Sprintf("state %d on %s: lox keeps %d actions, reference resolves to one", r, term.Name, acts.Len()))
				}
				continue
			}
			if ra.Count() != 1 {
				mism = append(mism, fmt.Sprintf("state %d on %s: reference keeps %d actions, lox silently picked one", r, term.Name, ra.Count()))
				continue
			}
			a := acts.Get(0)
			switch a.Type {
			case lr1.ActionAccept:
				if !ra.Accept {
					mism = append(mism, fmt.Sprintf("state %d on %s: lox accept, reference not", r, term.Name))
				}
			case lr1.ActionShift:
				if ra.Shift < 0 {
					mism = append(mism, fmt.Sprintf("state %d on %s: lox shift, reference %s", r, term.Name, ra.String(p)))
				} else {
					link(ra.Shift, a.ShiftState.Index, "shift "+term.Name)
				}
			case lr1.ActionReduce:
				k := prodKey(a.Prods[0])
				pi, ok := keyToProd[k]
				if !ok {
					mism = append(mism, "unknown lox production "+k)
				} else if len(ra.Reduce) != 1 || ra.Reduce[0] != pi {
					if rs, isRight := ref.RightShift[[2]int{r, ti}]; isRight && rs == pi {
						known++
					} else if alt, un := ref.UnspecAlt[[2]int{r, ti}]; un && alt == pi {
						// equal level with mixed associativity: undocumented, either is fine
					} else {
						mism = append(mism, fmt.Sprintf("state %d on %s: lox reduce %q, reference %s", r, term.Name, k, ra.String(p)))
					}
				}
			}
		}
		for ti := range ref.Resolved[r] {
			if !seen[ti] {
				mism = append(mism, fmt.Sprintf("state %d: lox lacks the action on %s (reference %s)", r, p.Names[ti], ref.Resolved[r][ti].String(p)))
			}
		}
		tm := t.Transitions(ls)
		seenNT := map[int]bool{}
		for _, in := range tm.Inputs() {
			rule, ok := in.(*lr1.Rule)
			if !ok {
				continue
			}
			ni, ok := nameIdx[rule.Name]
			if !ok {
				mism = append(mism, "unknown rule "+rule.Name)
				continue
			}
			seenNT[ni] = true
			rt, ok := ref.Goto[r][ni]
			if !ok {
				mism = append(mism, fmt.Sprintf("state %d: lox has an extra goto on %s", r, rule.Name))
				continue
			}
			link(rt, tm.Get(in).Index, "goto "+rule.Name)
		}
		for ni := range ref.Goto[r] {
			if !seenNT[ni] {
				mism = append(mism, fmt.Sprintf("state %d: lox lacks the goto on %s", r, p.Names[ni]))
			}
		}
	}
	if len(mism) == 0 && len(t.States) != ref.NStates {
		mism = append(mism, fmt.Sprintf("state count lox %d reference %d", len(t.States), ref.NStates))
	}
	sort.Strings(mism)
	return
}

// TableParse interprets lox's in-process table with a plain shift/reduce loop.
// names maps the harness's terminal indices to lox terminal names.
func TableParse(lx *Lox, names []string, w []int) bool {
	t := lx.T
	terms := map[string]*lr1.Terminal{}
	for _, tm := range lx.G.Terminals {
		terms[tm.Name] = tm
	}
	stack := []*lr1.ItemSet{t.States[0]}
	pos := 0
	for steps := 0; steps < 1000000; steps++ {
		la := 0
		if pos < len(w) {
			la = w[pos]
		}
		term := terms[names[la]]
		if term == nil {
			return false
		}
		acts := t.Actions(stack[len(stack)-1]).Get(term)
		if acts.Len() != 1 {
			return false
		}
		a := acts.Get(0)
		switch a.Type {
		case lr1.ActionAccept:
			return true
		case lr1.ActionShift:
			stack = append(stack, a.ShiftState)
			pos++
		case lr1.ActionReduce:
			pr := a.Prods[0]
			if len(pr.Terms) >= len(stack) {
				return false // malformed table: pops the bottom of the stack
			}
			stack = stack[:len(stack)-len(pr.Terms)]
			next := GotoOf(t, stack[len(stack)-1], pr.Rule)
			if next == nil {
				return false // malformed table: no goto after a reduce
			}
			stack = append(stack, next)
		}
	}
	return false // malformed table: does not terminate
}

// GotoOf returns the goto of state on rule, or nil when the table has none
// (lox's TransitionMap.Get panics in that case).
func GotoOf(t *lr1.ParserTable, st *lr1.ItemSet, rule lr1.Term) *lr1.ItemSet {
	tm := t.Transitions(st)
	for _, in := range tm.Inputs() {
		if in == rule {
			return tm.Get(in)
		}
	}
	return nil
}

// LNode is a parse-tree node built by interpreting lox's table.
type LNode struct {
	Rule  string   // "" for token leaves
	Terms []string // names of the production's terms
	Kids  []*LNode
	Tok   int // leaf: index into the input
	Sym   string
}

// TableParseTree is TableParse returning the tree (nil when rejected).
func TableParseTree(lx *Lox, names []string, w []int) *LNode {
	t := lx.T
	terms := map[string]*lr1.Terminal{}
	for _, tm := range lx.G.Terminals {
		terms[tm.Name] = tm
	}
	type ent struct {
		st *lr1.ItemSet
		n  *LNode
	}
	stack := []ent{{t.States[0], nil}}
	pos := 0
	for steps := 0; steps < 1000000; steps++ {
		la := 0
		if pos < len(w) {
			la = w[pos]
		}
		term := terms[names[la]]
		if term == nil {
			return nil
		}
		acts := t.Actions(stack[len(stack)-1].st).Get(term)
		if acts.Len() != 1 {
			return nil
		}
		a := acts.Get(0)
		switch a.Type {
		case lr1.ActionAccept:
			return stack[len(stack)-1].n
		case lr1.ActionShift:
			stack = append(stack, ent{a.ShiftState, &LNode{Tok: pos, Sym: term.Name}})
			pos++
		case lr1.ActionReduce:
			pr := a.Prods[0]
			n := &LNode{Rule: pr.Rule.Name, Terms: lr1.TermNames(pr.Terms), Sym: pr.Rule.Name}
			k := len(pr.Terms)
			for _, e := range stack[len(stack)-k:] {
				n.Kids = append(n.Kids, e.n)
			}
			stack = stack[:len(stack)-k]
			stack = append(stack, ent{t.Transitions(stack[len(stack)-1].st).Get(pr.Rule), n})
		}
	}
	panic("lox table parse did not terminate")
}

// ParseUnit runs only lox's parser on one file.
func ParseUnit(text string) (u *ast.Unit, diag string, pan any) {
	defer func() {
		if r := recover(); r != nil {
			pan = r
		}
	}()
	fset := gotoken.NewFileSet()
	var sb strings.Builder
	errs := errlogger.New(fset, &sb)
	file := fset.AddFile("g.lox", -1, len(text))
	u = parser.Parse(file, []byte(text), errs)
	if errs.HasError() {
		return nil, sb.String(), nil
	}
	return u, sb.String(), nil
}
