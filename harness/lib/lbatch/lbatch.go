// Package lbatch runs batches of (lexer spec, input texts) through the real
// generator, the Go compiler and the generated _LexerStateMachine driven by the
// real loxlex/simplelexer (layer C).
package lbatch

import (
	"encoding/json"
	"fmt"
	"regexp"
	"strings"
	"time"

	"github.com/dcaiafa/lox/verifharness/lib/forge"
)

type Case struct {
	Files  map[string]string // *.lox files
	Inputs [][]byte
}

// Tok as reported by the driver: token type id, byte offset, text length.
type Tok struct {
	T   int
	Lo  int
	Len int
	Str []byte
}

// Push is one recorded PushRune call.
type Push struct {
	R   int32
	Ret int
}

type Result struct {
	Toks    []Tok
	Reads   int
	Pushes  int
	Bound   string // "" or READBOUND / PUSHBOUND (step bounds)
	Panic   string
	History []Push `json:",omitempty"`
}

type Out struct {
	GenOK    bool
	GenDiag  string
	GenPanic string
	Results  []Result
	Files    map[string]string
	Names    map[int]string // token id -> name (from _TokenToString)
}

type HarnessError struct{ Msg string }

func (e *HarnessError) Error() string { return e.Msg }

type GenCodeError struct {
	CaseIndex int
	Output    string
}

func (e *GenCodeError) Error() string {
	return fmt.Sprintf("generated code of case %d does not compile:\n%s", e.CaseIndex, e.Output)
}

const userGo = `package PKGNAME

type Token struct{}

type prs struct{ lox }

func NewSM() interface {
	PushRune(rune) int
	Token() int
	Reset()
} {
	return new(_LexerStateMachine)
}

func TokName(t int) string { return _TokenToString(t) }
`

var genFileErr = regexp.MustCompile(`(c\d{4})/(base|lexer|parser)\.gen\.go:\d+`)
var anyFileErr = regexp.MustCompile(`(c\d{4})/[a-z_.]+\.go:\d+`)

func driverMain(pkgs []string, history bool) string {
	var d strings.Builder
	d.WriteString(`package main

import (
	"encoding/json"
	"fmt"
	gotoken "go/token"
	"os"

	"github.com/dcaiafa/loxlex/simplelexer"
`)
	for _, p := range pkgs {
		fmt.Fprintf(&d, "\t%s \"verifscratch/%s\"\n", p, p)
	}
	d.WriteString(`)

type sm interface {
	PushRune(rune) int
	Token() int
	Reset()
}

type push struct {
	R   int32
	Ret int
}

// proxy records the conversation between simplelexer and the state machine and
// enforces the step bound on PushRune calls.
type proxy struct {
	sm
	n, max int
	hist   []push
	keep   bool
}

func (p *proxy) PushRune(r rune) int {
	p.n++
	if p.n > p.max {
		panic("PUSHBOUND")
	}
	ret := p.sm.PushRune(r)
	if p.keep {
		p.hist = append(p.hist, push{int32(r), ret})
	}
	return ret
}

type tok struct {
	T   int
	Lo  int
	Len int
	Str []byte
}

type result struct {
	Toks    []tok
	Reads   int
	Pushes  int
	Bound   string
	Panic   string
	History []push ` + "`json:\",omitempty\"`" + `
}

func run(mk func() sm, in []byte, keep bool) (r result) {
	px := &proxy{sm: mk(), max: 4*len(in) + 16, keep: keep}
	defer func() {
		r.Pushes = px.n
		r.History = px.hist
		if x := recover(); x != nil {
			s := fmt.Sprint(x)
			if s == "PUSHBOUND" {
				r.Bound = s
			} else {
				r.Panic = s
			}
		}
	}()
	fset := gotoken.NewFileSet()
	file := fset.AddFile("in", -1, len(in))
	lx := simplelexer.New(simplelexer.Config{StateMachine: px, File: file, Input: in})
	for {
		r.Reads++
		if r.Reads > len(in)+2 {
			r.Bound = "READBOUND"
			return
		}
		t, typ := lx.ReadToken()
		r.Toks = append(r.Toks, tok{T: typ, Lo: file.Offset(t.Pos), Len: len(t.Str), Str: t.Str})
		if typ == simplelexer.EOF {
			return
		}
	}
}

type job struct {
	Inputs [][]byte
}

type out struct {
	Results []result
	Names   map[int]string
}

func main() {
	var in map[string]job
	if err := json.NewDecoder(os.Stdin).Decode(&in); err != nil {
		panic(err)
	}
	res := map[string]out{}
`)
	for _, p := range pkgs {
		fmt.Fprintf(&d, `	if j, ok := in[%q]; ok {
		o := out{Names: map[int]string{}, Results: []result{}}
		for _, w := range j.Inputs {
			o.Results = append(o.Results, run(func() sm { return %s.NewSM() }, w, %v))
		}
		for t := -1; t < 1200; t++ {
			o.Names[t] = %s.TokName(t)
		}
		res[%q] = o
	}
`, p, p, history, p, p)
	}
	d.WriteString("\tjson.NewEncoder(os.Stdout).Encode(res)\n}\n")
	return d.String()
}

// Run evaluates all cases in one build.
func Run(cases []*Case, fast, history bool) ([]*Out, error) {
	b, err := forge.NewBatch()
	if err != nil {
		return nil, &HarnessError{err.Error()}
	}
	defer b.Close()
	forge.FastLoader(fast)
	for _, c := range cases {
		files := map[string]string{"user.go": userGo}
		for n, t := range c.Files {
			files[n] = t
		}
		if _, err := b.Add(files); err != nil {
			return nil, &HarnessError{err.Error()}
		}
	}
	b.Generate(8, false)
	outs := make([]*Out, len(cases))
	var names []string
	type job struct{ Inputs [][]byte }
	jobs := map[string]job{}
	for i, p := range b.Pkgs {
		o := &Out{GenOK: p.Gen.OK, GenDiag: p.Gen.Diag, Files: p.Out}
		if p.Gen.Panic != nil {
			o.GenPanic = fmt.Sprint(p.Gen.Panic)
		}
		outs[i] = o
		if p.Gen.OK {
			names = append(names, p.Name)
			in := cases[i].Inputs
			if in == nil {
				in = [][]byte{}
			}
			jobs[p.Name] = job{Inputs: in}
		}
	}
	if len(names) == 0 {
		return outs, nil
	}
	bin, err := b.Build(driverMain(names, history), false)
	if err != nil {
		be, _ := err.(*forge.BuildError)
		if be == nil {
			return nil, &HarnessError{err.Error()}
		}
		if m := genFileErr.FindStringSubmatch(be.Output); m != nil {
			for _, l := range strings.Split(be.Output, "\n") {
				if mm := anyFileErr.FindStringSubmatch(l); mm != nil && !strings.Contains(l, ".gen.go") {
					return nil, &HarnessError{"harness-written Go does not compile:\n" + be.Output}
				}
			}
			var idx int
			fmt.Sscanf(m[1], "c%d", &idx)
			return outs, &GenCodeError{CaseIndex: idx, Output: be.Output}
		}
		return nil, &HarnessError{"driver build failed:\n" + be.Output}
	}
	stdin, _ := json.Marshal(jobs)
	rr := forge.Run(bin, stdin, 10*time.Minute)
	if rr.Err != nil {
		return nil, &HarnessError{fmt.Sprintf("driver run failed: %v\nstderr: %s", rr.Err, tail(string(rr.Stderr), 2000))}
	}
	var res map[string]struct {
		Results []Result
		Names   map[int]string
	}
	if err := json.Unmarshal(rr.Stdout, &res); err != nil {
		return nil, &HarnessError{"driver output: " + err.Error()}
	}
	for i, p := range b.Pkgs {
		if p.Gen.OK {
			outs[i].Results = res[p.Name].Results
			outs[i].Names = res[p.Name].Names
			if len(outs[i].Results) != len(cases[i].Inputs) {
				return nil, &HarnessError{fmt.Sprintf("driver returned %d results for %d inputs", len(outs[i].Results), len(cases[i].Inputs))}
			}
		}
	}
	return outs, nil
}

func tail(s string, n int) string {
	if len(s) > n {
		return s[len(s)-n:]
	}
	return s
}
