// Package cfggen: rapid generators for context-free grammars with lox sugar,
// sentences and near-sentences.
package cfggen

import (
	"fmt"

	. "github.com/dcaiafa/lox/verifharness/lib/cfgm"
	"pgregory.net/rapid"
)

type Opts struct {
	Sugar    bool // ? * + *! @list
	Prec     bool // @left/@right qualifiers anywhere (legitimate and not)
	Err      bool // @error terms
	ErrSugar bool // @error? / @error* (needs Err)
	Shapes   bool // mix in the shape library
	Styles   bool // vary the rendering
	MaxTok   int
	MaxRul   int
	Guarded  bool // every production starts with a token unique among its rule's alternatives (LL(1)-like, mostly conflict-free)
	SugarPct int  // probability of sugar on a term (default 30)
	HugePct  int  // percentage of grammars that get a rule with 250-330 alternatives (production indices beyond one byte)
}

// addPad adds a rule with several hundred alternatives (distinct token strings
// of length 1..4, i.e. a finite, LR(1) language) reachable from the start rule,
// placed before or after the other rules so that production indices of the
// other rules are small or large.
func addPad(t *rapid.T, g *G) {
	n := ri(t, 250, 330, "padn")
	nT := len(g.Toks)
	total := 0
	for l, pw := 1, nT-1; l <= 4; l, pw = l+1, pw*(nT-1) {
		total += pw
	}
	if n > total*3/4 {
		n = total * 3 / 4 // few tokens: not enough distinct strings of length <= 4
	}
	seen := map[string]bool{}
	pad := Rule{Name: "pad"}
	for len(pad.Prods) < n {
		l := ri(t, 1, 4, "padlen")
		var p Prod
		for i := 0; i < l; i++ {
			p.Terms = append(p.Terms, tokTerm(g, ri(t, 0, nT-2, "padt"))) // the last token never occurs inside pad strings
		}
		k := fmt.Sprint(p.Terms)
		if seen[k] {
			continue
		}
		seen[k] = true
		pad.Prods = append(pad.Prods, p)
	}
	use := Prod{Terms: []Term{tokTerm(g, nT-1), ruleTerm("pad"), tokTerm(g, nT-1)}}
	if nT >= 5 && len(pad.Prods) >= 255 && rapid.Bool().Draw(t, "aligned") {
		// a small conflict-free host so that the tables (not only the verdict) are compared
		g.Rules = []Rule{{Name: g.Rules[0].Name, Prods: []Prod{use}}}
	} else {
		g.Rules[0].Prods = append(g.Rules[0].Prods, use)
	}
	if nT >= 5 && len(pad.Prods) >= 255 && len(g.Rules) == 1 {
		// two look-alike rules whose production indices differ by exactly 256, used together in
		// one context and alone in another (index arithmetic in 8 bits would confuse the two states)
		pad.Prods = pad.Prods[:255]
		p1 := Rule{Name: "pq1", Prods: []Prod{{Terms: []Term{tokTerm(g, 0), tokTerm(g, 1)}}}}
		p2 := Rule{Name: "pq2", Prods: []Prod{{Terms: []Term{tokTerm(g, 0), tokTerm(g, 2)}}}}
		u := Rule{Name: "pqu", Prods: []Prod{{Terms: []Term{ruleTerm("pq1")}}, {Terms: []Term{ruleTerm("pq2")}}}}
		g.Rules[0].Prods = append(g.Rules[0].Prods,
			Prod{Terms: []Term{tokTerm(g, 2), ruleTerm("pqu"), tokTerm(g, 3)}},
			Prod{Terms: []Term{tokTerm(g, 3), ruleTerm("pq1"), tokTerm(g, 3)}})
		g.Rules = append(g.Rules, u, p1, pad, p2)
		return
	}
	if rapid.Bool().Draw(t, "padfirst") {
		g.Rules = append([]Rule{g.Rules[0], pad}, g.Rules[1:]...)
	} else {
		g.Rules = append(g.Rules, pad)
	}
}

func ri(t *rapid.T, lo, hi int, l string) int { return rapid.IntRange(lo, hi).Draw(t, l) }

func tokTerm(g *G, i int) Term { return Term{Kind: KSym, Name: g.Toks[i%len(g.Toks)], IsTok: true} }
func ruleTerm(n string) Term   { return Term{Kind: KSym, Name: n} }

func RuleName(i int) string { return fmt.Sprintf("r%c", 'a'+rune(i)) }

func symTerm(t *rapid.T, g *G, nR int) Term {
	if ri(t, 0, 99, "symk") < 55 {
		return tokTerm(g, ri(t, 0, len(g.Toks)-1, "tok"))
	}
	return ruleTerm(RuleName(ri(t, 0, nR-1, "rule")))
}

func anyTerm(t *rapid.T, g *G, nR int, o Opts) Term {
	base := symTerm(t, g, nR)
	roll := ri(t, 0, 99, "sugar")
	if o.Err && roll >= 93 {
		if o.ErrSugar && roll >= 98 {
			return Term{Kind: []Kind{KOpt, KOpt, KStar}[ri(t, 0, 2, "esk")], Name: "ERROR", IsTok: true}
		}
		return Term{Kind: KErr}
	}
	pct := o.SugarPct
	if pct == 0 {
		pct = 30
	}
	if !o.Sugar || roll >= pct {
		return base
	}
	k := []Kind{KOpt, KStar, KPlus, KStarF, KList, KListOpt}[ri(t, 0, 5, "sk")]
	base.Kind = k
	if k == KList || k == KListOpt {
		base.Sep = g.Toks[ri(t, 0, len(g.Toks)-1, "sep")]
		base.SepTk = true
	}
	return base
}

// GenG draws a grammar. Productivity is guaranteed by construction
// (makeProductive); acceptance by lox is not (callers classify).
func GenG(t *rapid.T, o Opts) *G {
	if o.MaxTok == 0 {
		o.MaxTok = 6
	}
	if o.MaxRul == 0 {
		o.MaxRul = 5
	}
	if ri(t, 0, 19, "big") == 0 {
		// now and then a large grammar: more tokens, more rules, more states (table rows beyond
		// one-byte offsets and varint boundaries); guarded so that it stays conflict-free more often
		o.MaxTok, o.MaxRul, o.Guarded = 12, 14, true
	}
	nT := ri(t, 2, o.MaxTok, "nT")
	nR := ri(t, 1, o.MaxRul, "nR")
	g := &G{}
	for i := 0; i < nT; i++ {
		g.Toks = append(g.Toks, fmt.Sprintf("T%c", 'A'+rune(i)))
	}
	for i := 0; i < nR; i++ {
		r := Rule{Name: RuleName(i)}
		nP := ri(t, 1, 3, "nP")
		seen := map[string]bool{}
		for j := 0; j < nP; j++ {
			var p Prod
			tmpl := ri(t, 0, 13, "tmpl")
			if o.Guarded && tmpl != 6 {
				tmpl = 0
			}
			switch {
			case o.Guarded && tmpl == 0: // guard unique within the rule, longer bodies
				p.Terms = append(p.Terms, tokTerm(g, j+i))
				for k, n := 0, ri(t, 0, 4, "n"); k < n; k++ {
					p.Terms = append(p.Terms, anyTerm(t, g, nR, o))
				}
			case tmpl <= 3 || tmpl >= 11: // guarded
				p.Terms = append(p.Terms, tokTerm(g, j+ri(t, 0, nT-1, "g")))
				for k, n := 0, ri(t, 0, 3, "n"); k < n; k++ {
					p.Terms = append(p.Terms, anyTerm(t, g, nR, o))
				}
			case tmpl == 4: // left recursive
				p.Terms = append(p.Terms, ruleTerm(r.Name))
				if rapid.Bool().Draw(t, "sep") {
					p.Terms = append(p.Terms, tokTerm(g, ri(t, 0, nT-1, "st")))
				}
				p.Terms = append(p.Terms, symTerm(t, g, nR))
			case tmpl == 5: // right recursive
				p.Terms = append(p.Terms, symTerm(t, g, nR))
				if rapid.Bool().Draw(t, "sep") {
					p.Terms = append(p.Terms, tokTerm(g, ri(t, 0, nT-1, "st")))
				}
				p.Terms = append(p.Terms, ruleTerm(r.Name))
			case tmpl == 6: // empty
			case tmpl == 7: // nullable placed at start / middle / end
				x := anyTerm(t, g, nR, o)
				if x.Kind == KSym || x.Kind == KPlus || x.Kind == KList {
					x.Kind = KOpt
					x.Sep, x.SepTk = "", false
				}
				a, b := tokTerm(g, ri(t, 0, nT-1, "a")), tokTerm(g, ri(t, 0, nT-1, "b"))
				switch ri(t, 0, 2, "where") {
				case 0:
					p.Terms = []Term{x, a, b}
				case 1:
					p.Terms = []Term{a, x, b}
				default:
					p.Terms = []Term{a, b, x}
				}
			default: // free
				for k, n := 0, ri(t, 1, 3, "n"); k < n; k++ {
					p.Terms = append(p.Terms, anyTerm(t, g, nR, o))
				}
			}
			if o.Prec && len(p.Terms) > 0 && ri(t, 0, 99, "pq") < 35 {
				p.Prec = ri(t, 1, 3, "prec")
				p.Right = rapid.Bool().Draw(t, "right")
			}
			k := fmt.Sprint(p.Terms)
			if seen[k] {
				continue
			}
			seen[k] = true
			r.Prods = append(r.Prods, p)
		}
		g.Rules = append(g.Rules, r)
	}
	if o.Shapes && ri(t, 0, 99, "shape?") < 55 {
		addShape(t, g, o)
		if ri(t, 0, 3, "shape2?") == 0 {
			addShape(t, g, o)
		}
	}
	if o.HugePct > 0 && ri(t, 0, 99, "huge") < o.HugePct {
		addPad(t, g)
	}
	makeProductive(g)
	if o.Guarded || ri(t, 0, 3, "connect") != 0 {
		connect(t, g, o.Guarded)
	}
	if o.Styles {
		g.Style = ri(t, 0, 63, "style")
		if ri(t, 0, 3, "ws-style") == 0 {
			g.Style |= ri(t, 1, 15, "ws-bits") << 6 // CRLF / tabs / trailing blanks / zero-padded levels
		}
	}
	return g
}

// connect makes every rule reachable from the start rule by adding guarded
// alternatives ("Tk rule") to reachable rules.
func connect(t *rapid.T, g *G, guardedOnly bool) {
	idx := map[string]int{}
	for i, r := range g.Rules {
		idx[r.Name] = i
	}
	for {
		reach := map[int]bool{0: true}
		stack := []int{0}
		for len(stack) > 0 {
			i := stack[len(stack)-1]
			stack = stack[:len(stack)-1]
			for _, p := range g.Rules[i].Prods {
				for _, tm := range p.Terms {
					for _, n := range []string{tm.Name, tm.Sep} {
						if j, ok := idx[n]; ok && !reach[j] {
							reach[j] = true
							stack = append(stack, j)
						}
					}
				}
			}
		}
		missing := -1
		var reachable []int
		for i := range g.Rules {
			if reach[i] {
				reachable = append(reachable, i)
			} else if missing < 0 {
				missing = i
			}
		}
		if missing < 0 {
			return
		}
		host := reachable[ri(t, 0, len(reachable)-1, "chost")]
		p := Prod{Terms: []Term{tokTerm(g, ri(t, 0, len(g.Toks)-1, "cguard")), ruleTerm(g.Rules[missing].Name)}}
		if !guardedOnly && ri(t, 0, 7, "cbare") == 0 {
			p.Terms = p.Terms[1:]
		}
		g.Rules[host].Prods = append(g.Rules[host].Prods, p)
	}
}

// addShape mixes one member of the shape library into g: fresh helper rules
// (names h<k><letter>) plus a production in an existing rule that reaches them.
func addShape(t *rapid.T, g *G, o Opts) {
	k := len(g.Rules)
	hn := func(s string) string { return fmt.Sprintf("h%d%s", k, s) }
	nT := len(g.Toks)
	// distinct-ish tokens
	base := ri(t, 0, nT-1, "shtok")
	tk := func(i int) Term { return tokTerm(g, base+i) }
	var entry Term
	var rules []Rule
	P := func(ts ...Term) Prod { return Prod{Terms: ts} }
	shape := ri(t, 0, 16, "shape")
	if shape >= 12 && shape <= 14 && o.Prec {
		shape = 8
	}
	switch shape {
	case 0: // nullable helper reached twice in one FIRST computation
		entry = ruleTerm(hn("s"))
		rules = []Rule{
			{Name: hn("s"), Prods: []Prod{P(ruleTerm(hn("y")), ruleTerm(hn("p")), ruleTerm(hn("q")), tk(0))}},
			{Name: hn("y"), Prods: []Prod{P(tk(1))}},
			{Name: hn("p"), Prods: []Prod{P(ruleTerm(hn("x")), tk(2)), P()}},
			{Name: hn("q"), Prods: []Prod{P(ruleTerm(hn("x")), tk(3)), P()}},
			{Name: hn("x"), Prods: []Prod{P()}},
		}
	case 1: // left-recursive nullable rule
		entry = ruleTerm(hn("s"))
		body := []Term{ruleTerm(hn("c")), tk(0)}
		if rapid.Bool().Draw(t, "two") {
			body = append(body, tk(0))
		}
		rules = []Rule{
			{Name: hn("s"), Prods: []Prod{P(tk(1), ruleTerm(hn("c")), tk(2))}},
			{Name: hn("c"), Prods: []Prod{P(body...), P()}},
		}
		if rapid.Bool().Draw(t, "afterNT") {
			// the nullable left-recursive rule directly after a nonterminal: the lookahead for
			// reducing that nonterminal comes from FIRST(c ...)
			rules[0].Prods[0] = P(ruleTerm(hn("h")), ruleTerm(hn("c")), tk(2))
			rules = append(rules, Rule{Name: hn("h"), Prods: []Prod{P(tk(1))}})
			if rapid.Bool().Draw(t, "item") {
				// elements are a rule of their own
				rules[1].Prods[0] = P(ruleTerm(hn("c")), ruleTerm(hn("i")))
				rules = append(rules, Rule{Name: hn("i"), Prods: []Prod{P(tk(0), tk(3))}})
			}
		}
	case 2: // same sub-language in two contexts with different followers (LALR merges lookaheads)
		entry = ruleTerm(hn("s"))
		rules = []Rule{
			{Name: hn("s"), Prods: []Prod{
				P(tk(0), ruleTerm(hn("l")), tk(1)),
				P(tk(2), ruleTerm(hn("l")), tk(3))}},
			{Name: hn("l"), Prods: []Prod{P(ruleTerm(hn("l")), ruleTerm(hn("i"))), P()}},
			{Name: hn("i"), Prods: []Prod{P(tk(4))}},
		}
		if o.Err {
			rules[2].Prods = append(rules[2].Prods, P(Term{Kind: KErr}))
		}
	case 3: // LR(1) but not LALR(1): reduce/reduce after merging
		entry = ruleTerm(hn("s"))
		rules = []Rule{
			{Name: hn("s"), Prods: []Prod{
				P(tk(0), ruleTerm(hn("e")), tk(0)),
				P(tk(1), ruleTerm(hn("e")), tk(1)),
				P(tk(0), ruleTerm(hn("f")), tk(1)),
				P(tk(1), ruleTerm(hn("f")), tk(0))}},
			{Name: hn("e"), Prods: []Prod{P(tk(2))}},
			{Name: hn("f"), Prods: []Prod{P(tk(2))}},
		}
	case 4: // dangling else
		entry = ruleTerm(hn("s"))
		rules = []Rule{{Name: hn("s"), Prods: []Prod{
			P(tk(0), ruleTerm(hn("s"))),
			P(tk(0), ruleTerm(hn("s")), tk(1), ruleTerm(hn("s"))),
			P(tk(2))}}}
	case 5: // expression tower
		entry = ruleTerm(hn("e"))
		rules = []Rule{
			{Name: hn("e"), Prods: []Prod{P(ruleTerm(hn("e")), tk(0), ruleTerm(hn("t"))), P(ruleTerm(hn("t")))}},
			{Name: hn("t"), Prods: []Prod{P(ruleTerm(hn("t")), tk(1), ruleTerm(hn("f"))), P(ruleTerm(hn("f")))}},
			{Name: hn("f"), Prods: []Prod{P(tk(2)), P(tk(3), ruleTerm(hn("e")), tk(4))}},
		}
	case 6: // unit chain of 2..6 rules ending in a nullable rule that may refer back to the top
		kk := ri(t, 2, 6, "chainlen")
		cn := func(i int) string { return hn(fmt.Sprintf("a%d", i)) }
		for i := 0; i < kk-1; i++ {
			rules = append(rules, Rule{Name: cn(i), Prods: []Prod{P(ruleTerm(cn(i + 1)))}})
		}
		var tail Rule
		switch ri(t, 0, 2, "tail") {
		case 0:
			tail = Rule{Name: cn(kk - 1), Prods: []Prod{P(tk(0)), P()}}
		case 1: // nullability climbs the chain first, then the terminal has to climb it again
			tail = Rule{Name: cn(kk - 1), Prods: []Prod{P(), P(ruleTerm(cn(0)), tk(0))}}
		default:
			tail = Rule{Name: cn(kk - 1), Prods: []Prod{P(), P(tk(0), ruleTerm(cn(0)))}}
		}
		rules = append(rules, tail)
		if ri(t, 0, 2, "bottomup") == 0 { // declaration order matters to iterative analyses
			for i, j := 0, len(rules)-1; i < j; i, j = i+1, j-1 {
				rules[i], rules[j] = rules[j], rules[i]
			}
		}
		entry = ruleTerm(cn(0))
		if rapid.Bool().Draw(t, "afterNT") {
			// the chain directly after a nonterminal (lookaheads of that nonterminal come from FIRST(chain ...))
			rules = append(rules, Rule{Name: hn("s"), Prods: []Prod{P(tk(2)), P(tk(3), ruleTerm(hn("s")), ruleTerm(cn(0)), tk(4))}})
			entry = ruleTerm(hn("s"))
		}
	case 7: // unreachable rule + token unused by the parser
		rules = []Rule{{Name: hn("u"), Prods: []Prod{P(tk(0), tk(1))}}}
		g.Toks = append(g.Toks, fmt.Sprintf("T%c", 'A'+rune(len(g.Toks))))
	case 8: // ambiguous expression with (possibly partial) precedence
		entry = ruleTerm(hn("e"))
		pr := []Prod{
			{Terms: []Term{ruleTerm(hn("e")), tk(0), ruleTerm(hn("e"))}},
			{Terms: []Term{ruleTerm(hn("e")), tk(1), ruleTerm(hn("e"))}},
			{Terms: []Term{tk(2)}},
		}
		if o.Prec {
			all := ri(t, 0, 2, "qall") != 0
			for i := 0; i < 2; i++ {
				if all || ri(t, 0, 3, "q") != 0 {
					pr[i].Prec = []int{1, 2, 2, 10, 12, 20, 100}[ri(t, 0, 6, "lvl")]
					pr[i].Right = ri(t, 0, 3, "r") == 0
				}
			}
		}
		rules = []Rule{{Name: hn("e"), Prods: pr}}
		if o.Prec && ri(t, 0, 3, "third") == 0 {
			// a third action in an entry whose other two are a precedence-resolvable shift/reduce pair:
			// after "e OP e" on OP there is the shift, the reduce of the binary production and the
			// reduce of an empty rule. Precedence says nothing about three-way entries.
			if pr[0].Prec == 0 {
				pr[0].Prec = 1
			}
			q := Prod{Terms: []Term{ruleTerm(hn("e")), tk(0), ruleTerm(hn("e")), ruleTerm(hn("m")), tk(0), tk(2)}, Prec: pr[0].Prec, Right: pr[0].Right}
			if rapid.Bool().Draw(t, "thirdFirst") {
				pr = []Prod{q, pr[0], pr[2]}
			} else {
				pr = []Prod{pr[0], q, pr[2]}
			}
			rules = []Rule{{Name: hn("e"), Prods: pr}, {Name: hn("m"), Prods: []Prod{P()}}}
			if rapid.Bool().Draw(t, "mFirst") {
				rules[0], rules[1] = rules[1], rules[0]
			}
		} else if o.Prec && ri(t, 0, 3, "foreign") == 0 {
			// a shift that belongs to productions of TWO rules: "e = e OP e @left(n) | post | X" and
			// "post = e OP OP @left(n)". After "e OP e" on OP the shift continues both e's own
			// production and post's; precedence only speaks about productions of one rule.
			if pr[0].Prec == 0 {
				pr[0].Prec = 1
			}
			post := Rule{Name: hn("p"), Prods: []Prod{{Terms: []Term{ruleTerm(hn("e")), tk(0), tk(0)}, Prec: pr[0].Prec, Right: pr[0].Right}}}
			if ri(t, 0, 2, "foreignlvl") == 0 {
				post.Prods[0].Prec++ // ... also with a different level, and
			}
			if ri(t, 0, 3, "foreignq") == 0 {
				post.Prods[0].Prec, post.Prods[0].Right = 0, false // ... without a qualifier
			}
			pr = []Prod{pr[0], P(ruleTerm(hn("p"))), pr[2]}
			if rapid.Bool().Draw(t, "postFirstAlt") {
				pr[0], pr[1] = pr[1], pr[0]
			}
			rules = []Rule{{Name: hn("e"), Prods: pr}, post}
			if rapid.Bool().Draw(t, "postFirst") {
				rules[0], rules[1] = rules[1], rules[0]
			}
		}
	case 9: // the same element under the same sugar twice, with different separators / contexts
		entry = ruleTerm(hn("s"))
		sugar := []Kind{KListOpt, KList}[ri(t, 0, 1, "lk")]
		rules = []Rule{
			{Name: hn("s"), Prods: []Prod{
				P(tk(0), Term{Kind: sugar, Name: hn("x"), Sep: g.Toks[(base+1)%nT], SepTk: true}, tk(2)),
				P(tk(3), Term{Kind: sugar, Name: hn("x"), Sep: g.Toks[(base+4)%nT], SepTk: true}, tk(5))}},
			{Name: hn("x"), Prods: []Prod{P(tk(6))}},
		}
	case 10: // nesting with an empty pair: a state that loops on itself and gains lookaheads on the way
		entry = ruleTerm(hn("n"))
		a, b := ri(t, 0, nT-1, "open"), ri(t, 0, nT-1, "close")
		if a == b {
			b = (a + 1) % nT
		}
		pr := []Prod{
			P(tokTerm(g, a), ruleTerm(hn("n")), tokTerm(g, b)),
			P(tokTerm(g, a), tokTerm(g, b)),
		}
		if rapid.Bool().Draw(t, "atom") {
			pr = append(pr, P(tk(2)))
		}
		if rapid.Bool().Draw(t, "seq") {
			pr[0] = P(tokTerm(g, a), ruleTerm(hn("n")), ruleTerm(hn("n")), tokTerm(g, b))
		}
		rules = []Rule{{Name: hn("n"), Prods: pr}}
	case 15, 16: // one LR(0) item "m = t . o" (o nullable, FIRST(o) not empty) closed in several
		// contexts with different lookaheads, and a rival "u" with t's body in one of them: the
		// lookahead of "t = Z ." must be FIRST(o) plus the follower of THAT context only (an
		// over-approximation that leaks lookaheads between contexts invents a conflict with
		// "u = Z ." or a spurious reduce). Guards are drawn at random, so either context may be
		// the one whose closure is computed first.
		for len(g.Toks) < 8 {
			g.Toks = append(g.Toks, fmt.Sprintf("T%c", 'A'+rune(len(g.Toks))))
		}
		perm := rapid.Permutation([]int{0, 1, 2, 3, 4, 5, 6, 7}).Draw(t, "ctxperm")
		tq := func(i int) Term { return tokTerm(g, perm[i]) }
		nctx := ri(t, 2, 3, "nctx")
		z, w := tq(6), tq(7)
		var sp []Prod
		for c := 0; c < nctx; c++ {
			sp = append(sp, P(tq(c), ruleTerm(hn("m")), tq(3+c)))
		}
		rc := ri(t, 0, nctx-1, "rivalctx")
		rf := (rc + 1 + ri(t, 0, nctx-2, "rivalfol")) % nctx // follower of another context
		sp = append(sp, P(tq(rc), ruleTerm(hn("u")), tq(3+rf)))
		if rapid.Bool().Draw(t, "rivalFirst") {
			sp[0], sp[len(sp)-1] = sp[len(sp)-1], sp[0]
		}
		body := []Term{z}
		if ri(t, 0, 3, "zz") == 0 {
			body = []Term{z, z}
		}
		mp := P(ruleTerm(hn("t")), ruleTerm(hn("o")))
		op := []Prod{P(w), P()}
		switch ri(t, 0, 3, "ovar") {
		case 0:
			op = []Prod{P(w, ruleTerm(hn("o"))), P()}
		case 1:
			mp = P(ruleTerm(hn("t")), ruleTerm(hn("o")), ruleTerm(hn("o")))
		}
		entry = ruleTerm(hn("s"))
		rules = []Rule{
			{Name: hn("s"), Prods: sp},
			{Name: hn("m"), Prods: []Prod{mp}},
			{Name: hn("t"), Prods: []Prod{P(body...)}},
			{Name: hn("o"), Prods: op},
			{Name: hn("u"), Prods: []Prod{P(body...)}},
		}
		if rapid.Bool().Draw(t, "revdecl") {
			for i, j := 1, len(rules)-1; i < j; i, j = i+1, j-1 {
				rules[i], rules[j] = rules[j], rules[i]
			}
		}
	default: // two nullable siblings followed by a token (FIRST through several nullables)
		entry = ruleTerm(hn("s"))
		rules = []Rule{
			{Name: hn("s"), Prods: []Prod{P(ruleTerm(hn("a")), ruleTerm(hn("b")), ruleTerm(hn("a")), tk(0))}},
			{Name: hn("a"), Prods: []Prod{P(tk(1)), P()}},
			{Name: hn("b"), Prods: []Prod{P(ruleTerm(hn("a")), tk(2)), P()}},
		}
	}
	g.Rules = append(g.Rules, rules...)
	if entry.Name == "" {
		return
	}
	// reach the shape from an existing rule (often the start rule)
	host := 0
	if ri(t, 0, 2, "host0") != 0 {
		host = ri(t, 0, k-1, "host")
	}
	var p Prod
	switch ri(t, 0, 3, "wrap") {
	case 0:
		p = P(entry)
	case 1:
		p = P(tokTerm(g, ri(t, 0, nT-1, "wg")), entry)
	case 2:
		p = P(entry, tokTerm(g, ri(t, 0, nT-1, "wf")))
	default:
		p = P(tokTerm(g, ri(t, 0, nT-1, "wg")), entry, tokTerm(g, ri(t, 0, nT-1, "wf")))
	}
	if ri(t, 0, 4, "replace") == 0 {
		g.Rules[host].Prods = []Prod{p}
	} else {
		g.Rules[host].Prods = append(g.Rules[host].Prods, p)
	}
}

// GenExpr draws an operator-table grammar (C05 domain): 1..4 levels, each
// @left or @right, 1..3 binary operators per level, atoms, parentheses and an
// unqualified bracketed alternative. Level numbers are neither contiguous nor
// ordered in the text.
type ExprSpec struct {
	G      *G
	Ops    map[string]OpInfo // operator token -> level/assoc
	Num    string
	LP, RP string
	Fn     string // token of the unqualified alternative Fn LP e RP ("" if absent)
	// Twin: a second expression rule "f" over the SAME operator tokens with its own levels and
	// associativities, reached from e through the atom TL f TR ("" / nil if absent). Precedence is
	// a property of productions, not of tokens: each rule follows its own table.
	Twin   map[string]OpInfo
	TL, TR string
}

type OpInfo struct {
	Level int
	Right bool
}

var levelGaps = []int{1, 1, 1, 2, 2, 3, 4, 5, 7, 9, 10, 11, 90, 100, 985}

func GenExpr(t *rapid.T) *ExprSpec {
	g := &G{}
	es := &ExprSpec{G: g, Ops: map[string]OpInfo{}}
	nLevels := ri(t, 1, 4, "levels")
	r := Rule{Name: "e"}
	tok := 0
	newTok := func() string {
		n := fmt.Sprintf("T%c", 'A'+rune(tok))
		tok++
		g.Toks = append(g.Toks, n)
		return n
	}
	// distinct level numbers, not necessarily contiguous
	lv := make([]int, 0, nLevels)
	cur := 0
	for l := 0; l < nLevels; l++ {
		// small gaps mostly; now and then a jump, so that levels with several digits and
		// trailing zeros (10, 20, 100, 1200) occur next to single-digit ones
		cur += levelGaps[ri(t, 0, len(levelGaps)-1, "gap")]
		lv = append(lv, cur)
	}
	var prods []Prod
	for l := 0; l < nLevels; l++ {
		right := rapid.Bool().Draw(t, "right")
		for k, n := 0, ri(t, 1, 3, "ops"); k < n; k++ {
			op := newTok()
			es.Ops[op] = OpInfo{Level: lv[l], Right: right}
			prods = append(prods, Prod{
				Terms: []Term{ruleTerm("e"), {Kind: KSym, Name: op, IsTok: true}, ruleTerm("e")},
				Prec:  lv[l], Right: right})
		}
	}
	es.Num, es.LP, es.RP = newTok(), newTok(), newTok()
	prods = append(prods,
		Prod{Terms: []Term{{Kind: KSym, Name: es.Num, IsTok: true}}},
		Prod{Terms: []Term{{Kind: KSym, Name: es.LP, IsTok: true}, ruleTerm("e"), {Kind: KSym, Name: es.RP, IsTok: true}}})
	if rapid.Bool().Draw(t, "fn") {
		es.Fn = newTok()
		prods = append(prods, Prod{Terms: []Term{{Kind: KSym, Name: es.Fn, IsTok: true}, {Kind: KSym, Name: es.LP, IsTok: true}, ruleTerm("e"), {Kind: KSym, Name: es.RP, IsTok: true}}})
	}
	var twin *Rule
	if ri(t, 0, 2, "twin") == 0 {
		es.Twin = map[string]OpInfo{}
		es.TL, es.TR = newTok(), newTok()
		// the twin's levels: the same numbers dealt out differently (per original level, so that
		// one level keeps one associativity)
		lvPerm := rapid.Permutation(lv).Draw(t, "twinlevels")
		if rapid.Bool().Draw(t, "twinOwnNumbers") {
			// ... or level numbers of its own that interleave with e's (levels are compared within
			// one rule only; a number says nothing about another rule's numbers)
			own := make([]int, 0, len(lv))
			c := 0
			for range lv {
				c += levelGaps[ri(t, 0, len(levelGaps)-1, "twingap")]
				own = append(own, c)
			}
			lvPerm = rapid.Permutation(own).Draw(t, "twinownlevels")
		}
		remap := map[int]OpInfo{}
		for i, l := range lv {
			remap[l] = OpInfo{Level: lvPerm[i], Right: rapid.Bool().Draw(t, "twinright")}
		}
		tw := Rule{Name: "f"}
		for _, pr := range prods {
			if len(pr.Terms) == 3 && pr.Prec > 0 {
				op := pr.Terms[1].Name
				ni := remap[pr.Prec]
				es.Twin[op] = ni
				tw.Prods = append(tw.Prods, Prod{Terms: []Term{ruleTerm("f"), pr.Terms[1], ruleTerm("f")}, Prec: ni.Level, Right: ni.Right})
			}
		}
		tw.Prods = append(tw.Prods,
			Prod{Terms: []Term{{Kind: KSym, Name: es.Num, IsTok: true}}},
			Prod{Terms: []Term{{Kind: KSym, Name: es.LP, IsTok: true}, ruleTerm("f"), {Kind: KSym, Name: es.RP, IsTok: true}}})
		tw.Prods = rapid.Permutation(tw.Prods).Draw(t, "twinperm")
		prods = append(prods, Prod{Terms: []Term{{Kind: KSym, Name: es.TL, IsTok: true}, ruleTerm("f"), {Kind: KSym, Name: es.TR, IsTok: true}}})
		twin = &tw
	}
	// shuffle production order (text order must not matter)
	perm := rapid.Permutation(prods).Draw(t, "perm")
	r.Prods = perm
	g.Rules = []Rule{r}
	if rapid.Bool().Draw(t, "wrap") {
		// start rule distinct from the expression rule
		g.Rules = []Rule{{Name: "s", Prods: []Prod{{Terms: []Term{ruleTerm("e")}}}}, r}
	}
	if twin != nil {
		if rapid.Bool().Draw(t, "twinfirst") && len(g.Rules) == 2 {
			g.Rules = []Rule{g.Rules[0], *twin, g.Rules[1]}
		} else {
			g.Rules = append(g.Rules, *twin)
		}
	}
	g.Style = ri(t, 0, 7, "style")
	if ri(t, 0, 3, "padlevels") == 0 {
		g.Style |= 512
	}
	return es
}

func makeProductive(g *G) {
	prod := map[string]bool{}
	for _, t := range g.Toks {
		prod[t] = true
	}
	termOK := func(t Term) bool {
		switch t.Kind {
		case KOpt, KStar, KStarF, KListOpt, KErr:
			return true
		case KList:
			return prod[t.Name] && prod[t.Sep]
		default:
			return prod[t.Name]
		}
	}
	for changed := true; changed; {
		changed = false
		for _, r := range g.Rules {
			if prod[r.Name] {
				continue
			}
			for _, p := range r.Prods {
				ok := true
				for _, t := range p.Terms {
					ok = ok && termOK(t)
				}
				if ok {
					prod[r.Name] = true
					changed = true
					break
				}
			}
		}
	}
	for i := range g.Rules {
		if !prod[g.Rules[i].Name] {
			g.Rules[i].Prods = append(g.Rules[i].Prods, Prod{Terms: []Term{tokTerm(g, i)}})
			prod[g.Rules[i].Name] = true
		}
	}
}

// HasErr reports whether the grammar contains an @error term.
func HasErr(g *G) bool {
	for _, r := range g.Rules {
		for _, p := range r.Prods {
			for _, tm := range p.Terms {
				if tm.Kind == KErr || tm.Name == "ERROR" {
					return true
				}
			}
		}
	}
	return false
}

// Sentence draws a random derivation (depth-bounded) from the plain grammar.
// ERROR terminals (from @error productions) may appear in the result.
func Sentence(t *rapid.T, p *Plain, budget int) []int {
	h := p.MinHeights()
	const inf = 1 << 20
	ph := func(pr PProd) int {
		m := 0
		for _, x := range pr.RHS {
			if h[x] > m {
				m = h[x]
			}
		}
		if m >= inf {
			return inf
		}
		return m + 1
	}
	var out []int
	var derive func(sym, b int)
	derive = func(sym, b int) {
		if p.IsTerm(sym) {
			out = append(out, sym)
			return
		}
		var cands []int
		for _, q := range p.ByLHS[sym] {
			if ph(p.Prods[q]) <= b || len(out) > 40 && ph(p.Prods[q]) == h[sym] {
				cands = append(cands, q)
			}
		}
		if len(cands) == 0 {
			for _, q := range p.ByLHS[sym] {
				if ph(p.Prods[q]) == h[sym] {
					cands = append(cands, q)
				}
			}
		}
		q := cands[ri(t, 0, len(cands)-1, "d")]
		for _, x := range p.Prods[q].RHS {
			derive(x, b-1)
		}
	}
	if h[p.Prods[0].LHS] >= inf {
		return nil
	}
	derive(p.Prods[0].RHS[0], budget)
	return out
}

// LongSentence derives a sentence of roughly target tokens (more than any stack or buffer of the
// generated parser holds at first): productions are picked at random until target tokens have
// been produced, then every open symbol is closed by a shortest derivation. nil if the start
// symbol derives nothing or the grammar cannot grow.
func LongSentence(t *rapid.T, p *Plain, target int) []int {
	h := p.MinHeights()
	const inf = 1 << 20
	ph := func(pr PProd) int {
		m := 0
		for _, x := range pr.RHS {
			if h[x] > m {
				m = h[x]
			}
		}
		if m >= inf {
			return inf
		}
		return m + 1
	}
	if h[p.Prods[0].LHS] >= inf {
		return nil
	}
	// grow[x]: x lies on a cycle of the "mentions" relation or reaches a symbol that does
	nsym := len(h)
	reach := make([][]bool, nsym)
	for i := range reach {
		reach[i] = make([]bool, nsym)
	}
	for _, pr := range p.Prods {
		if ph(pr) >= inf {
			continue
		}
		for _, x := range pr.RHS {
			if !p.IsTerm(x) {
				reach[pr.LHS][x] = true
			}
		}
	}
	for k := 0; k < nsym; k++ {
		for i := 0; i < nsym; i++ {
			if reach[i][k] {
				for j := 0; j < nsym; j++ {
					if reach[k][j] {
						reach[i][j] = true
					}
				}
			}
		}
	}
	grow := make([]bool, nsym)
	for i := 0; i < nsym; i++ {
		for j := 0; j < nsym; j++ {
			if (i == j || reach[i][j]) && reach[j][j] {
				grow[i] = true
			}
		}
	}
	var out []int
	depth, calls := 0, 0
	var derive func(sym int)
	derive = func(sym int) {
		if p.IsTerm(sym) {
			out = append(out, sym)
			return
		}
		calls++ // growth is budgeted by expansions, not by tokens (left recursion emits nothing on the way down)
		depth++
		defer func() { depth-- }()
		var cands []int
		for _, q := range p.ByLHS[sym] {
			if ph(p.Prods[q]) >= inf {
				continue
			}
			if calls < target && depth < 4000 || ph(p.Prods[q]) == h[sym] {
				cands = append(cands, q)
			}
		}
		q := cands[ri(t, 0, len(cands)-1, "ld")]
		if calls < target && depth < 4000 {
			// prefer productions through which the derivation can keep growing
			var rec []int
			for _, c := range cands {
				for _, x := range p.Prods[c].RHS {
					if !p.IsTerm(x) && grow[x] {
						rec = append(rec, c)
						break
					}
				}
			}
			if len(rec) > 0 {
				q = rec[ri(t, 0, len(rec)-1, "ldr")]
			}
		}
		for _, x := range p.Prods[q].RHS {
			derive(x)
		}
	}
	derive(p.Prods[0].RHS[0])
	return out
}

// StripErr removes ERROR terminals (index 1).
func StripErr(w []int) []int {
	var o []int
	for _, x := range w {
		if x != 1 {
			o = append(o, x)
		}
	}
	return o
}

// Mutate applies one random token-level edit. Inserted tokens are drawn from
// [lo, nT).
func Mutate(t *rapid.T, w []int, lo, nT int) []int {
	out := append([]int(nil), w...)
	switch ri(t, 0, 5, "mop") {
	case 0:
		if len(out) > 0 {
			i := ri(t, 0, len(out)-1, "mi")
			out = append(out[:i], out[i+1:]...)
		}
	case 1:
		i := ri(t, 0, len(out), "mi")
		x := ri(t, lo, nT-1, "mx")
		out = append(out[:i], append([]int{x}, out[i:]...)...)
	case 2:
		if len(out) > 0 {
			i := ri(t, 0, len(out)-1, "mi")
			out[i] = ri(t, lo, nT-1, "mx")
		}
	case 3:
		if len(out) > 1 {
			i := ri(t, 0, len(out)-2, "mi")
			out[i], out[i+1] = out[i+1], out[i]
		}
	case 4: // truncate
		if len(out) > 0 {
			out = out[:ri(t, 0, len(out)-1, "mi")]
		}
	case 5: // duplicate a token
		if len(out) > 0 {
			i := ri(t, 0, len(out)-1, "mi")
			out = append(out[:i+1], out[i:]...)
		}
	}
	return out
}

// Inputs draws n strings for grammar p: derivations, mutants of derivations
// and a few short arbitrary strings. Every string is classified by the oracle.
func Inputs(t *rapid.T, p *Plain, n int, maxLen int) [][]int {
	var ws [][]int
	seen := map[string]bool{}
	add := func(w []int) {
		if len(w) > maxLen {
			return
		}
		k := fmt.Sprint(w)
		if seen[k] {
			return
		}
		seen[k] = true
		ws = append(ws, w)
	}
	for k := 0; k < n; k++ {
		switch roll := ri(t, 0, 9, "ik"); {
		case roll <= 4:
			add(StripErr(Sentence(t, p, ri(t, 2, 7, "b"))))
		case roll <= 8:
			w := StripErr(Sentence(t, p, ri(t, 2, 6, "b")))
			for m, nm := 0, ri(t, 1, 2, "nm"); m < nm; m++ {
				w = Mutate(t, w, 2, p.NT)
			}
			add(w)
		default:
			l := ri(t, 0, 4, "rl")
			w := make([]int, l)
			for i := range w {
				w[i] = ri(t, 2, p.NT-1, "rt")
			}
			add(w)
		}
	}
	return ws
}

// CloneG deep-copies a grammar.
func CloneG(g *G) *G {
	n := &G{Toks: append([]string(nil), g.Toks...), Style: g.Style}
	for _, r := range g.Rules {
		nr := Rule{Name: r.Name}
		for _, p := range r.Prods {
			np := Prod{Prec: p.Prec, Right: p.Right, Terms: append([]Term(nil), p.Terms...)}
			nr.Prods = append(nr.Prods, np)
		}
		n.Rules = append(n.Rules, nr)
	}
	return n
}

// Reductions lists one-step simplifications of g (each still productive).
func Reductions(g *G) []*G {
	var out []*G
	add := func(n *G) {
		if productive(n) {
			out = append(out, n)
		}
	}
	// drop a rule (not the start) together with every production using it
	for i := 1; i < len(g.Rules); i++ {
		n := CloneG(g)
		name := n.Rules[i].Name
		n.Rules = append(n.Rules[:i], n.Rules[i+1:]...)
		ok := true
		for ri := range n.Rules {
			var keep []Prod
			for _, p := range n.Rules[ri].Prods {
				uses := false
				for _, t := range p.Terms {
					if (!t.IsTok && t.Name == name) || (t.Sep == name && !t.SepTk) {
						uses = true
					}
				}
				if !uses {
					keep = append(keep, p)
				}
			}
			if len(keep) == 0 {
				ok = false
			}
			n.Rules[ri].Prods = keep
		}
		if ok {
			add(n)
		}
	}
	// drop a production
	for i := range g.Rules {
		if len(g.Rules[i].Prods) < 2 {
			continue
		}
		for j := range g.Rules[i].Prods {
			n := CloneG(g)
			n.Rules[i].Prods = append(n.Rules[i].Prods[:j], n.Rules[i].Prods[j+1:]...)
			add(n)
		}
	}
	// drop a term / desugar a term / drop a qualifier
	for i := range g.Rules {
		for j := range g.Rules[i].Prods {
			p := g.Rules[i].Prods[j]
			for k := range p.Terms {
				n := CloneG(g)
				tp := &n.Rules[i].Prods[j]
				tp.Terms = append(tp.Terms[:k], tp.Terms[k+1:]...)
				add(n)
				if p.Terms[k].Kind != KSym && p.Terms[k].Kind != KErr {
					n2 := CloneG(g)
					t := &n2.Rules[i].Prods[j].Terms[k]
					t.Kind, t.Sep, t.SepTk = KSym, "", false
					add(n2)
				}
			}
			if p.Prec > 0 {
				n := CloneG(g)
				n.Rules[i].Prods[j].Prec, n.Rules[i].Prods[j].Right = 0, false
				add(n)
			}
		}
	}
	if g.Style != 0 {
		n := CloneG(g)
		n.Style = 0
		add(n)
	}
	return out
}

func productive(g *G) bool {
	prod := map[string]bool{}
	for _, t := range g.Toks {
		prod[t] = true
	}
	known := map[string]bool{"ERROR": true}
	prod["ERROR"] = true
	for _, t := range g.Toks {
		known[t] = true
	}
	for _, r := range g.Rules {
		known[r.Name] = true
	}
	termOK := func(t Term) bool {
		switch t.Kind {
		case KOpt, KStar, KStarF, KListOpt, KErr:
			return true
		case KList:
			return prod[t.Name] && prod[t.Sep]
		default:
			return prod[t.Name]
		}
	}
	for _, r := range g.Rules {
		if len(r.Prods) == 0 {
			return false
		}
		for _, p := range r.Prods {
			for _, t := range p.Terms {
				if t.Kind != KErr && !known[t.Name] {
					return false
				}
				if (t.Kind == KList || t.Kind == KListOpt) && !known[t.Sep] {
					return false
				}
			}
		}
	}
	for changed := true; changed; {
		changed = false
		for _, r := range g.Rules {
			if prod[r.Name] {
				continue
			}
			for _, p := range r.Prods {
				ok := true
				for _, t := range p.Terms {
					ok = ok && termOK(t)
				}
				if ok {
					prod[r.Name] = true
					changed = true
					break
				}
			}
		}
	}
	for _, r := range g.Rules {
		if !prod[r.Name] {
			return false
		}
	}
	return true
}

// InputReductions lists one-step simplifications of a token sequence.
func InputReductions(w []int) [][]int {
	var out [][]int
	n := len(w)
	if n > 48 {
		// long inputs: delete aligned blocks of n/2, n/4, n/8, n/16 tokens (30 candidates per round,
		// big blocks first); single tokens once the input is short
		for _, parts := range []int{2, 4, 8, 16} {
			size := (n + parts - 1) / parts
			for lo := 0; lo < n; lo += size {
				hi := min(n, lo+size)
				out = append(out, append(append([]int(nil), w[:lo]...), w[hi:]...))
			}
		}
		return out
	}
	for i := range w {
		out = append(out, append(append([]int(nil), w[:i]...), w[i+1:]...))
	}
	return out
}
