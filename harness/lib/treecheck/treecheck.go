// Package treecheck is shared by C03 (actions = bottom-up derivation, sugar
// values) and C16 (_onBounds): sentences of generated grammars are parsed by
// the compiled parser and the event log / result tree compared with what the
// validated reference derivation tree prescribes.
package treecheck

import (
	"fmt"
	"strings"

	"github.com/dcaiafa/lox/verifharness/lib/cfggen"
	"github.com/dcaiafa/lox/verifharness/lib/cfgm"
	"github.com/dcaiafa/lox/verifharness/lib/ev"
	"github.com/dcaiafa/lox/verifharness/lib/loxb"
	"github.com/dcaiafa/lox/verifharness/lib/pbatch"
	"github.com/dcaiafa/lox/verifharness/lib/pgo"
	"github.com/dcaiafa/lox/verifharness/lib/shrink"
	"pgregory.net/rapid"
)

type Case struct {
	G      *cfgm.G
	Named  bool   // list parameters declared with named slice types (assignable, not identical)
	Layout int    // where _onBounds sits among the parser type's methods (pgo.Opts.BoundsLayout)
	Nil    uint64 `json:",omitempty"` // rules whose actions return a nil `any` (pgo.Opts.NilMask)
	Tok    uint64 `json:",omitempty"` // rules whose actions return the last Token they received (pgo.Opts.TokMask)
	Any    uint64 `json:",omitempty"` // rules whose action parameters are all `any`: productions of equal length share a method (pgo.Opts.AnyMask)
	PtrDis bool   `json:",omitempty"` // Token.Discard has a pointer receiver (pgo.Opts.PtrDiscard)
	Inputs [][]int
	Lox    string `json:",omitempty"`
	Detail string `json:",omitempty"`
}

// Gen draws a conflict-free, sugar-heavy grammar and sentences of it.
func Gen(rt *rapid.T, run *ev.Run, nInputs int, nullableHeavy bool) *Case {
	for try := 0; try < 12; try++ {
		o := cfggen.Opts{Shapes: true, Styles: true, Sugar: rapid.IntRange(0, 9).Draw(rt, "sugar") < 8}
		if rapid.IntRange(0, 9).Draw(rt, "guarded") < 7 {
			o.Guarded, o.SugarPct, o.Shapes = true, 50, rapid.Bool().Draw(rt, "shapes")
			o.MaxRul = 4
		}
		g := cfggen.GenG(rt, o)
		lx := loxb.Front1(g.Lox())
		if lx.Panic != nil || !lx.OK || lx.T.HasConflicts {
			run.Class("gen:rejected-or-conflicts")
			continue
		}
		p := cfgm.Desugar(g)
		if nullableHeavy && !p.HasNullableRule() && try < 8 {
			continue
		}
		if try < 10 && !rich(g) {
			run.Class("gen:too-plain-retried")
			continue
		}
		seen := map[string]bool{}
		c := &Case{G: g, Named: rapid.Bool().Draw(rt, "named-slice-params"), Layout: rapid.IntRange(0, 2).Draw(rt, "onbounds-layout")}
		c.PtrDis = rapid.Bool().Draw(rt, "ptr-discard")
		if rapid.IntRange(0, 2).Draw(rt, "nil-results") == 0 {
			// some rules (the start rule more often than not) are side-effect-only: `any`, nil
			c.Nil = rapid.Uint64().Draw(rt, "nilmask") | uint64(rapid.IntRange(0, 1).Draw(rt, "nilstart"))
			if len(pgo.NilRules(g, c.Nil)) > 0 {
				run.Class("gen:rules-returning-nil-interface")
			}
		}
		if rapid.IntRange(0, 2).Draw(rt, "tok-results") == 0 {
			// some rules hand on a token instead of a node (result type Token)
			c.Tok = rapid.Uint64().Draw(rt, "tokmask")
			if len(pgo.TokRules(g, c.Tok, pgo.NilRules(g, c.Nil))) > 0 {
				run.Class("gen:rules-returning-a-token")
			}
		}
		if rapid.IntRange(0, 2).Draw(rt, "any-params") == 0 {
			// one `any`-typed method for all productions of a rule that have the same length
			c.Any = rapid.Uint64().Draw(rt, "anymask")
			run.Class("gen:rules-with-any-typed-shared-methods")
		}
		for k := 0; k < nInputs; k++ {
			w := cfggen.Sentence(rt, p, rapid.IntRange(2, 8).Draw(rt, "b"))
			if len(w) > 40 {
				continue
			}
			key := fmt.Sprint(w)
			if seen[key] {
				continue
			}
			seen[key] = true
			c.Inputs = append(c.Inputs, w)
		}
		if p.HasRecursion() && rapid.IntRange(0, 5).Draw(rt, "long") == 0 {
			// one long sentence: deep stacks, lists of hundreds of elements
			if w := cfggen.LongSentence(rt, p, rapid.IntRange(150, 700).Draw(rt, "longlen")); len(w) >= 100 && len(w) <= 1500 {
				c.Inputs = append(c.Inputs, w)
				run.Class("gen:long-sentence")
			}
		}
		return c
	}
	return nil
}

// rich: at least one sugar term, >=5 terms in total and >=2 rules.
func rich(g *cfgm.G) bool {
	sugar, terms := 0, 0
	for _, r := range g.Rules {
		for _, p := range r.Prods {
			for _, t := range p.Terms {
				terms++
				if t.Kind != cfgm.KSym && t.Kind != cfgm.KErr {
					sugar++
				}
			}
		}
	}
	return sugar >= 1 && terms >= 5 && len(g.Rules) >= 2
}

// Mode selects what is compared.
type Mode struct {
	OnBounds bool // compile with _onBounds and compare bounds events too
	Diff     bool // additionally compile without _onBounds and demand identical actions/tree/result (C16)
}

type Verdict struct {
	Bad    []int // failing input (nil = held)
	Detail string
}

// Eval runs all cases in one batch (two when m.Diff).
func Eval(run *ev.Run, cases []*Case, m Mode, count bool, prop string) ([]Verdict, error) {
	mk := func(onb bool) ([]*pbatch.Case, []*pbatch.Out, error) {
		pc := make([]*pbatch.Case, len(cases))
		for i, c := range cases {
			pc[i] = &pbatch.Case{G: c.G, Inputs: c.Inputs, OnBounds: onb, NamedSlices: c.Named, BoundsLayout: c.Layout, NilMask: c.Nil, TokMask: c.Tok, AnyMask: c.Any, PtrDiscard: c.PtrDis}
		}
		outs, err := pbatch.Run(pc, true)
		return pc, outs, err
	}
	vs := make([]Verdict, len(cases))
	pc, outs, err := mk(m.OnBounds)
	if ge, ok := err.(*pbatch.GenCodeError); ok {
		vs[ge.CaseIndex] = Verdict{Bad: []int{}, Detail: "lox succeeded but the generated parser does not compile: " + ge.Output}
		return vs, nil
	}
	if err != nil {
		return nil, err
	}
	var outs2 []*pbatch.Out
	if m.Diff {
		_, outs2, err = mk(false)
		if ge, ok := err.(*pbatch.GenCodeError); ok {
			vs[ge.CaseIndex] = Verdict{Bad: []int{}, Detail: "lox succeeded but the generated parser does not compile: " + ge.Output}
			return vs, nil
		}
		if err != nil {
			return nil, err
		}
	}
	for i, c := range cases {
		c.Lox = pc[i].LoxText
		o := outs[i]
		if !o.GenOK {
			lx := loxb.Front1(c.Lox)
			if lx.OK && !lx.T.HasConflicts {
				vs[i] = Verdict{Bad: []int{}, Detail: "codegen.Generate rejects an accepted grammar with a matching action file: " + o.GenDiag + o.GenPanic}
			}
			continue
		}
		p := cfgm.Desugar(c.G)
		ref := cfgm.BuildRef(p, 3000)
		if ref.TooBig || ref.Conflict {
			run.Inconclusive("reference automaton too big or conflicting")
			continue
		}
		for k, w := range c.Inputs {
			tree := ref.ParseTree(w)
			if tree == nil {
				continue // not a sentence (only sentences are in this property's domain)
			}
			if err := p.ValidateTree(tree, w); err != nil {
				return nil, fmt.Errorf("reference tree failed self-certification: %v", err)
			}
			ex := pgo.ExpectedNilTok(p, tree, w, pgo.NilRules(c.G, c.Nil), pgo.TokRules(c.G, c.Tok, pgo.NilRules(c.G, c.Nil)))
			r := o.Results[k]
			if r.Skipped {
				continue
			}
			if count {
				run.Eval(1)
				classify(run, prop, c.Lox, w, ex)
			}
			fail := func(format string, args ...any) {
				vs[i] = Verdict{Bad: w, Detail: fmt.Sprintf("input [%s]: ", p.Show(w)) + fmt.Sprintf(format, args...)}
			}
			if r.Panic != "" || !r.OK || r.Errs != 0 {
				fail("a sentence did not parse cleanly (ok=%v errors=%d panic=%q)", r.OK, r.Errs, r.Panic)
				break
			}
			if r.Tree != ex.Tree {
				fail("result tree differs from the derivation tree\n  got  %s\n  want %s", r.Tree, ex.Tree)
				break
			}
			gotA, gotAll := pgo.SplitEvents(r.Log)
			var wantA []string
			for _, e := range ex.Events {
				if strings.HasPrefix(e, "A#") {
					wantA = append(wantA, e)
				}
			}
			if strings.Join(gotA, " ") != strings.Join(wantA, " ") {
				fail("action calls differ from one-per-user-node in post-order\n  got  %v\n  want %v", gotA, wantA)
				break
			}
			if m.OnBounds {
				if d := compareEvents(gotAll, ex.Events); d != "" {
					fail("_onBounds calls differ: %s\n  got  %v\n  want %v", d, gotAll, ex.Events)
					break
				}
			}
			if m.Diff {
				r2 := outs2[i].Results[k]
				a2, _ := pgo.SplitEvents(r2.Log)
				if r2.Skipped {
					continue
				}
				if r2.OK != r.OK || r2.Tree != r.Tree || strings.Join(a2, " ") != strings.Join(gotA, " ") || r2.Reads != r.Reads {
					fail("presence of _onBounds changes the parse: with %v/%s, without %v/%s", r.OK, r.Tree, r2.OK, r2.Tree)
					break
				}
			}
		}
	}
	return vs, nil
}

func classify(run *ev.Run, prop, lox string, w []int, ex *pgo.Expect) {
	key := lox + "|" + fmt.Sprint(w)
	switch prop {
	case "C03":
		if ex.Sugar > 0 {
			run.Class("sentence-with-non-empty-sugar-slot")
		}
		if ex.Nodes >= 3 && ex.Sugar > 0 && ex.MaxAr >= 3 {
			run.Nontrivial(key)
		}
	case "C16":
		if ex.EdgeEmpty {
			run.Class("tree-with-empty-child-at-an-edge")
			run.Nontrivial(key)
		}
	}
	if len(w) == 0 {
		run.Class("empty-sentence")
	}
}

// compareEvents compares the full event log. Events of *! helpers ("B~") are
// compared on the value only, with bounds merely required to be ordered and
// inside the input (the statement does not say whether discarded elements count).
func compareEvents(got, want []string) string {
	if len(got) != len(want) {
		return fmt.Sprintf("%d events, expected %d", len(got), len(want))
	}
	for i := range got {
		w := want[i]
		if strings.HasPrefix(w, "B~") {
			gv, gb := splitB(got[i])
			wv, _ := splitB("B" + w[2:])
			if gv != wv {
				return fmt.Sprintf("event %d: value %s, expected %s", i, gv, wv)
			}
			var lo, hi int
			if n, _ := fmt.Sscanf(gb, "%d:%d", &lo, &hi); n != 2 || lo > hi {
				return fmt.Sprintf("event %d: bounds %s not ordered", i, gb)
			}
			continue
		}
		if got[i] != w {
			return fmt.Sprintf("event %d: %s, expected %s", i, got[i], w)
		}
	}
	return ""
}

func splitB(e string) (val, bounds string) {
	i := strings.LastIndex(e, "@")
	if i < 0 {
		return e, ""
	}
	return e[:i], e[i+1:]
}

// Shrink minimises a failing case with batch evaluation.
func Shrink(run *ev.Run, c *Case, m Mode, prop string) *Case {
	cands := func(c *Case) []*Case {
		var out []*Case
		for _, g := range cfggen.Reductions(c.G) {
			out = append(out, &Case{G: g, Named: c.Named, Layout: c.Layout, Nil: c.Nil, PtrDis: c.PtrDis, Inputs: c.Inputs})
		}
		for _, w := range cfggen.InputReductions(c.Inputs[0]) {
			out = append(out, &Case{G: c.G, Named: c.Named, Layout: c.Layout, Nil: c.Nil, PtrDis: c.PtrDis, Inputs: [][]int{w}})
		}
		return out
	}
	failing := func(cs []*Case) []bool {
		res := make([]bool, len(cs))
		var keep []*Case
		var idx []int
		for i, c := range cs {
			lx := loxb.Front1(c.G.Lox())
			if lx.Panic != nil || !lx.OK || lx.T.HasConflicts {
				continue
			}
			ok := true
			for _, x := range c.Inputs[0] {
				if x < 2 || x >= 2+len(c.G.Toks) {
					ok = false
				}
			}
			if !ok || !cfgm.Earley(cfgm.Desugar(c.G), c.Inputs[0]) {
				continue
			}
			keep = append(keep, c)
			idx = append(idx, i)
		}
		if len(keep) == 0 {
			return res
		}
		vs, err := Eval(run, keep, m, false, prop)
		if err != nil {
			return res
		}
		for k, v := range vs {
			res[idx[k]] = v.Bad != nil
		}
		return res
	}
	return shrink.Greedy(c, cands, failing, 12)
}

// RunCheck is the common test body of C03 and C16.
func RunCheck(run *ev.Run, prop string, m Mode, nQuick, nThorough int, nullableHeavy bool) {
	report := func(c *Case, detail string) {
		c.Detail = detail
		run.Violation(detail, c)
	}
	one := func(c *Case) {
		vs, err := Eval(run, []*Case{c}, m, true, prop)
		if err != nil {
			run.HarnessError("%v", err)
		}
		if vs[0].Bad != nil {
			report(c, vs[0].Detail)
		}
	}
	if run.Replay != "" {
		var c Case
		if err := ev.LoadReplay(run.Replay, &c); err != nil {
			run.HarnessError("replay: %v", err)
		}
		one(&c)
		return
	}
	for _, f := range run.CanonFiles() {
		var c Case
		if err := ev.LoadReplay(f, &c); err != nil {
			run.HarnessError("canon %s: %v", f, err)
		}
		if c.G == nil {
			continue // a replay file of another part of the check (handled by the caller)
		}
		run.Class("replay-tier")
		one(&c)
	}
	if run.Violations() > 0 {
		return
	}
	n := run.N(nQuick, nThorough)
	const batch = 80
	for done := 0; done < n; done += batch {
		var cases []*Case
		want := batch
		if n-done < want {
			want = n - done
		}
		fc := run.Check(fmt.Sprintf("collect-%d", done), want*6, 1, func(rt *rapid.T, fail ev.FailFunc) {
			if len(cases) >= want {
				return
			}
			if c := Gen(rt, run, 60, nullableHeavy); c != nil {
				cases = append(cases, c)
			}
		})
		if fc != nil {
			run.HarnessError("collect failed: %s\n%s", fc.Msg, fc.Log)
		}
		vs, err := Eval(run, cases, m, true, prop)
		if err != nil {
			run.HarnessError("%v", err)
		}
		for i, c := range cases {
			run.Class("grammars")
			if i < 2 && len(c.Inputs) > 0 {
				run.Sample("case", map[string]any{"lox": c.Lox, "sentences": len(c.Inputs), "first": c.Inputs[0]})
			}
			if vs[i].Bad == nil {
				continue
			}
			fc := &Case{G: c.G, Named: c.Named, Layout: c.Layout, Nil: c.Nil, PtrDis: c.PtrDis, Inputs: [][]int{vs[i].Bad}, Lox: c.Lox}
			detail := vs[i].Detail
			if !strings.Contains(detail, "TIMEOUT") {
				fc = Shrink(run, fc, m, prop)
				if v2, err := Eval(run, []*Case{fc}, m, false, prop); err == nil && v2[0].Bad != nil {
					detail = v2[0].Detail
				}
			}
			report(fc, detail)
			return
		}
	}
}
