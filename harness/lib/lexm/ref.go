package lexm

// Tok is one element of a token stream. Kind is a token name, "ERROR" or "EOF".
// For tokens [Lo,Hi) is the byte range of the text; for ERROR and EOF Lo==Hi is
// the offset where the current token attempt started.
type Tok struct {
	Kind string
	Lo   int
	Hi   int
}

// Info describes what a reference run exercised (non-triviality rules).
type Info struct {
	Priority     bool // some run was matched by >=2 rules (earliest wins)
	Extended     bool // an accepting proper prefix was extended (longest match)
	MaxDepth     int  // deepest mode stack
	Returned     bool // reached depth>=2 and came back to depth 0
	PopEmpty     bool // a @pop_mode hit an empty stack: the stream stops before that token (unspecified)
	PendingAtEOF bool // accumulated, never emitted text at EOF
	AccumThenOut bool // an accumulate step was followed by an emit/discard
	EmitNotLast  bool // matched a rule whose emit/discard is not written last
	Discards     [][2]int
	Steps        int
	Errors       int // lexical errors after which lexing went on (LexOn)
}

// RefLexer is the property text made executable.
type RefLexer struct {
	S     *Spec
	G     *Eng
	rules [][]*re // per mode
	midx  map[string]int
}

func NewRef(s *Spec) *RefLexer {
	r := &RefLexer{S: s, G: NewEng(), midx: map[string]int{}}
	for i, m := range s.Modes {
		r.midx[m.Name] = i
		var rs []*re
		for _, ru := range m.Rules {
			rs = append(rs, r.G.Compile(s, ru.E))
		}
		r.rules = append(r.rules, rs)
	}
	return r
}

// Step applies the definition once: from pos in mode, consume the longest run
// that is still a prefix of some match, then pick the earliest rule matching
// exactly that run. win == -1 means error (or end of input when end == pos).
// skip lists rule indices to ignore (used by C08 to leave non-greedy rules to
// their own oracle).
func (r *RefLexer) Step(mode int, in []byte, pos int, skip map[int]bool) (win, end int) {
	ds := append([]*re(nil), r.rules[mode]...)
	for i := range ds {
		if skip[i] {
			ds[i] = r.G.none
		}
	}
	p := pos
	for {
		c, n := DecodeRune(in, p)
		if c == -1 {
			break
		}
		alive := false
		nds := make([]*re, len(ds))
		for i, d := range ds {
			nds[i] = r.G.deriv(d, c)
			alive = alive || nds[i].op != '0'
		}
		if !alive {
			break
		}
		ds = nds
		p += n
	}
	if p > pos {
		for i, d := range ds {
			if nullable(d) {
				return i, p
			}
		}
	}
	return -1, p
}

// Lex returns the token stream up to and including the first ERROR or EOF.
func (r *RefLexer) Lex(in []byte) ([]Tok, Info) { return r.lex(in, false) }

// LexOn goes on after a lexical error the way the reference driver (simplelexer) does: the
// character that failed and everything up to and including the next newline is skipped, the state
// machine is Reset (default mode) and lexing continues. What is left on the mode stack at that
// moment is unspecified: the stream stops before a @pop_mode that would reach below it
// (Info.PopEmpty). Everything else - in particular "after @pop_mode, the mode that was current
// before the matching @push_mode" - is as specified as before the error.
func (r *RefLexer) LexOn(in []byte) ([]Tok, Info) { return r.lex(in, true) }

func (r *RefLexer) lex(in []byte, goOn bool) ([]Tok, Info) {
	var out []Tok
	var info Info
	mode := 0
	var stack []int
	floor := 0 // entries below this index were pushed before the last error
	pos, start := 0, 0
	accumPending := false
	for {
		info.Steps++
		ds := r.rules[mode]
		p := pos
		for {
			c, n := DecodeRune(in, p)
			if c == -1 {
				break
			}
			alive := false
			nds := make([]*re, len(ds))
			for i, d := range ds {
				nds[i] = r.G.deriv(d, c)
				alive = alive || nds[i].op != '0'
			}
			if !alive {
				break
			}
			if p > pos {
				for _, d := range ds {
					if nullable(d) {
						info.Extended = true
						break
					}
				}
			}
			ds = nds
			p += n
		}
		win := -1
		if p > pos {
			cnt := 0
			for i, d := range ds {
				if nullable(d) {
					if win == -1 {
						win = i
					}
					cnt++
				}
			}
			if cnt >= 2 {
				info.Priority = true
			}
		}
		if win == -1 {
			if p == pos && pos >= len(in) {
				if start == pos {
					return append(out, Tok{"EOF", start, start}), info
				}
				info.PendingAtEOF = true
			}
			out = append(out, Tok{"ERROR", start, start})
			if !goOn {
				return out, info
			}
			if p >= len(in) {
				// the input ended inside a token: after the ERROR the driver reports EOF
				return append(out, Tok{"EOF", len(in), len(in)}), info
			}
			// the driver's recovery: drop the character that failed and the rest of its line
			info.Errors++
			q := p
			for {
				c, n := DecodeRune(in, q)
				if c == -1 {
					break
				}
				q += n
				if c == '\n' {
					break
				}
			}
			pos, start = q, q
			mode, floor = 0, len(stack)
			accumPending = false
			continue
		}
		rule := r.S.Modes[mode].Rules[win]
		// mode actions in written order
		final := "accum"
		emitTok := rule.Name
		if rule.Name != "" {
			final = "emit"
		}
		for i, a := range rule.Actions {
			switch a.Kind {
			case "push":
				stack = append(stack, mode)
				mode = r.midx[a.Arg]
				if len(stack) > info.MaxDepth {
					info.MaxDepth = len(stack)
				}
			case "pop":
				if len(stack) <= floor {
					info.PopEmpty = true
					return out, info
				}
				mode = stack[len(stack)-1]
				stack = stack[:len(stack)-1]
				if len(stack) == 0 && info.MaxDepth >= 2 {
					info.Returned = true
				}
			case "emit":
				final, emitTok = "emit", a.Arg
				if i != len(rule.Actions)-1 {
					info.EmitNotLast = true
				}
			case "discard":
				final = "discard"
				if i != len(rule.Actions)-1 {
					info.EmitNotLast = true
				}
			}
		}
		pos = p
		switch final {
		case "emit":
			out = append(out, Tok{emitTok, start, pos})
			start = pos
			if accumPending {
				info.AccumThenOut = true
			}
			accumPending = false
		case "discard":
			info.Discards = append(info.Discards, [2]int{start, pos})
			start = pos
			if accumPending {
				info.AccumThenOut = true
			}
			accumPending = false
		default:
			accumPending = true
		}
	}
}

// ---- exported view of the derivative automaton (for product exploration) ----

// RE is an opaque state of the derivative automaton.
type RE = *re

func (r *RefLexer) ModeRules(mode int) []RE { return append([]RE(nil), r.rules[mode]...) }
func (r *RefLexer) Deriv(x RE, c rune) RE   { return r.G.deriv(x, c) }
func Dead(x RE) bool                        { return x.op == '0' }
func NullableRE(x RE) bool                  { return nullable(x) }
func KeyRE(x RE) string                     { return x.key }

// Boundaries returns every code point at which some set of the mode's rules
// starts, or the one after it ends.
func (r *RefLexer) Boundaries(mode int) []rune {
	seen := map[*re]bool{}
	bs := map[rune]bool{0: true}
	var walk func(x *re)
	walk = func(x *re) {
		if x == nil || seen[x] {
			return
		}
		seen[x] = true
		if x.op == 's' {
			for _, iv := range x.set.R {
				bs[iv.Lo] = true
				if iv.Hi < MaxRune {
					bs[iv.Hi+1] = true
				}
			}
		}
		walk(x.a)
		walk(x.b)
		for _, y := range x.alts {
			walk(y)
		}
	}
	for _, x := range r.rules[mode] {
		walk(x)
	}
	out := make([]rune, 0, len(bs))
	for b := range bs {
		out = append(out, b)
	}
	return out
}

// ModeIndex maps a mode name to its index in Spec.Modes.
func (r *RefLexer) ModeIndex(name string) int { return r.midx[name] }
