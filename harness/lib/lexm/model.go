// Package lexm: lexer specification model, rendering to .lox text, and the
// reference lexer (Brzozowski derivatives over the spec's own expressions).
// Shares no code with lox.
package lexm

import (
	"fmt"
	"strings"
	"unicode"
)

type Rng struct{ Lo, Hi rune }

const MaxRune = 0x10FFFF

// Expr kinds: lit class any seq alt opt star plus starng plusng ref group
type Expr struct {
	Kind string
	Lit  string  `json:",omitempty"`
	Set  []Rng   `json:",omitempty"` // class: positive items
	Neg  bool    `json:",omitempty"`
	Sub  []Rng   `json:",omitempty"` // class difference: (Set) - [Sub]
	SubN bool    `json:",omitempty"` // right operand negated
	HasS bool    `json:",omitempty"` // difference present
	Kids []*Expr `json:",omitempty"`
	Ref  string  `json:",omitempty"` // macro name
}

// Action kinds: push pop emit discard
type Action struct {
	Kind string
	Arg  string `json:",omitempty"` // mode name ("" = default mode) or token name
}

type Rule struct {
	Name    string `json:",omitempty"` // token name; "" = fragment
	E       *Expr
	Actions []Action `json:",omitempty"`
}

type Mode struct {
	Name  string // "" = default mode
	Rules []*Rule
}

type Macro struct {
	Name string
	E    *Expr
}

// Spec: Modes[0] is the default mode.
type Spec struct {
	Macros    []*Macro `json:",omitempty"`
	Modes     []*Mode
	Externals []string `json:",omitempty"`
	// TokenOrder lists token names in declaration order of the rendered text.
	Style int `json:",omitempty"`
}

// Esc renders one code point with documented spellings only.
func Esc(r rune, inClass bool) string {
	switch {
	case r == '\\':
		return `\\`
	case r == '\n':
		return `\n`
	case r == '\r':
		return `\r`
	case r == '\t':
		return `\t`
	case r == '\'' && !inClass:
		return `\'`
	case r == '-' && inClass:
		return `\-`
	case r == ']' && inClass:
		return `\u005D`
	case r >= 0x20 && r < 0x7F:
		return string(r)
	case r <= 0xFFFF:
		return fmt.Sprintf(`\u%04X`, r)
	default:
		return fmt.Sprintf(`\U%08X`, r)
	}
}

// EscVar is Esc with the spelling picked among the documented equivalents by h (any
// deterministic number): printable non-ASCII characters are written raw half of the time
// instead of as \uXXXX, and plain ASCII characters now and then as \xXX. Characters that
// need an escape keep the spelling of Esc.
func EscVar(r rune, inClass bool, h int) string {
	if h < 0 {
		h = -h
	}
	switch {
	case r > 0x7F && unicode.IsPrint(r) && h%2 == 0:
		return string(r)
	case r > 0x20 && r < 0x7F && h%5 == 3 && Esc(r, inClass) == string(r):
		return fmt.Sprintf(`\x%02X`, r)
	}
	return Esc(r, inClass)
}

func classText(rs []Rng, neg bool) string {
	var b strings.Builder
	if neg {
		b.WriteString("~")
	}
	b.WriteString("[")
	for i, r := range rs {
		b.WriteString(EscVar(r.Lo, true, int(r.Lo)*31+i*17+len(rs)))
		if r.Hi != r.Lo {
			b.WriteString("-")
			b.WriteString(EscVar(r.Hi, true, int(r.Hi)*29+i*13+len(rs)))
		}
	}
	b.WriteString("]")
	return b.String()
}

// Text renders an expression.
func (e *Expr) Text(top bool) string {
	switch e.Kind {
	case "lit":
		var b strings.Builder
		b.WriteString("'")
		n := len([]rune(e.Lit))
		for i, r := range []rune(e.Lit) {
			b.WriteString(EscVar(r, false, int(r)*31+i*17+n))
		}
		b.WriteString("'")
		return b.String()
	case "class":
		s := classText(e.Set, e.Neg)
		if e.HasS {
			s += " - " + classText(e.Sub, e.SubN)
		}
		return s
	case "any":
		return "."
	case "ref":
		return e.Ref
	case "group":
		// explicit parentheses around a sub-expression (same language as the sub-expression)
		return "(" + e.Kids[0].Text(true) + ")"
	case "seq":
		parts := make([]string, len(e.Kids))
		for i, k := range e.Kids {
			parts[i] = k.Text(false)
			if k.Kind == "alt" && !strings.HasPrefix(parts[i], "(") {
				parts[i] = "(" + parts[i] + ")"
			}
		}
		return strings.Join(parts, " ")
	case "alt":
		parts := make([]string, len(e.Kids))
		for i, k := range e.Kids {
			parts[i] = k.Text(false)
		}
		s := strings.Join(parts, " | ")
		if !top {
			return "(" + s + ")"
		}
		return s
	case "opt", "star", "plus", "starng", "plusng":
		op := map[string]string{"opt": "?", "star": "*", "plus": "+", "starng": "*?", "plusng": "+?"}[e.Kind]
		k := e.Kids[0]
		s := k.Text(false)
		switch k.Kind {
		case "seq", "opt", "star", "plus", "starng", "plusng":
			s = "(" + s + ")"
		case "class":
			if k.HasS {
				s = "(" + s + ")"
			}
		}
		return s + op
	}
	panic("expr kind " + e.Kind)
}

func (a Action) Text() string {
	switch a.Kind {
	case "push":
		return "@push_mode(" + a.Arg + ")"
	case "pop":
		return "@pop_mode"
	case "emit":
		return "@emit(" + a.Arg + ")"
	case "discard":
		return "@discard"
	}
	panic("action " + a.Kind)
}

func (r *Rule) Text() string {
	var b strings.Builder
	if r.Name == "" {
		b.WriteString("@frag ")
	} else {
		b.WriteString(r.Name + " = ")
	}
	b.WriteString(r.E.Text(true))
	for _, a := range r.Actions {
		b.WriteString(" " + a.Text())
	}
	return b.String()
}

// Lox renders the specification (lexer section only).
func (s *Spec) Lox() string {
	var b strings.Builder
	b.WriteString("@lexer\n")
	if len(s.Externals) > 0 {
		b.WriteString("@external " + strings.Join(s.Externals, " ") + "\n")
	}
	writeMacros := func() {
		for _, m := range s.Macros {
			fmt.Fprintf(&b, "@macro %s = %s\n", m.Name, m.E.Text(true))
		}
	}
	// style bit 8: the macros are declared after the k-th rule of the default mode (k = Style>>4),
	// i.e. after rules that already use them and before further rules; otherwise at the top
	macrosAfter := -1
	if s.Style&8 != 0 && len(s.Macros) > 0 {
		macrosAfter = 1 + (s.Style>>4)%len(s.Modes[0].Rules)
	} else {
		writeMacros()
	}
	writeMode := func(m *Mode, indent string) {
		for i, r := range m.Rules {
			b.WriteString(indent + r.Text() + "\n")
			if m == s.Modes[0] && i+1 == macrosAfter {
				writeMacros()
			}
		}
	}
	// named modes may come before or after the default-mode rules
	named := func() {
		for _, m := range s.Modes[1:] {
			fmt.Fprintf(&b, "@mode %s {\n", m.Name)
			writeMode(m, "  ")
			b.WriteString("}\n")
		}
	}
	if s.Style&1 != 0 {
		named()
		writeMode(s.Modes[0], "")
	} else {
		writeMode(s.Modes[0], "")
		named()
	}
	text := b.String()
	// style bit 2: CRLF line ends; bit 4: a tab instead of the two blanks that indent a mode's rules
	if s.Style&4 != 0 {
		text = strings.ReplaceAll(text, "\n  ", "\n\t")
	}
	if s.Style&2 != 0 {
		text = strings.ReplaceAll(text, "\n", "\r\n")
	}
	return text
}

// TokenNames returns the terminal names in lox's numbering order for this
// rendering: EOF, ERROR, then externals/tokens in text order.
func (s *Spec) TokenNames() []string {
	out := []string{"EOF", "ERROR"}
	out = append(out, s.Externals...)
	add := func(m *Mode) {
		for _, r := range m.Rules {
			if r.Name != "" {
				out = append(out, r.Name)
			}
		}
	}
	if s.Style&1 != 0 {
		for _, m := range s.Modes[1:] {
			add(m)
		}
		add(s.Modes[0])
	} else {
		add(s.Modes[0])
		for _, m := range s.Modes[1:] {
			add(m)
		}
	}
	return out
}

func (s *Spec) ModeByName(n string) *Mode {
	for _, m := range s.Modes {
		if m.Name == n {
			return m
		}
	}
	return nil
}

func (s *Spec) MacroByName(n string) *Macro {
	for _, m := range s.Macros {
		if m.Name == n {
			return m
		}
	}
	return nil
}
