package lexm

import (
	"sort"
	"strconv"
	"strings"
	"unicode/utf8"
)

// re: regular expressions with hash-consed, ACI-normalised alternation, for
// Brzozowski derivatives.
type re struct {
	op   byte // '0' empty set, 'e' epsilon, 's' set, '.' cat, '|' alt (n-ary, sorted, unique), '*' star
	set  *CharSet
	a, b *re
	alts []*re
	key  string
}

// CharSet is a set of code points as sorted, disjoint, non-adjacent intervals.
type CharSet struct {
	R   []Rng
	key string
}

func (c *CharSet) Has(r rune) bool {
	i := sort.Search(len(c.R), func(i int) bool { return c.R[i].Hi >= r })
	return i < len(c.R) && c.R[i].Lo <= r
}

func (c *CharSet) Empty() bool { return len(c.R) == 0 }

// NormSet builds the canonical interval list from arbitrary ranges.
func NormSet(rs []Rng) *CharSet {
	xs := append([]Rng(nil), rs...)
	sort.Slice(xs, func(i, j int) bool { return xs[i].Lo < xs[j].Lo })
	var out []Rng
	for _, x := range xs {
		if x.Lo > x.Hi {
			continue
		}
		if n := len(out); n > 0 && x.Lo <= out[n-1].Hi+1 {
			if x.Hi > out[n-1].Hi {
				out[n-1].Hi = x.Hi
			}
			continue
		}
		out = append(out, x)
	}
	var sb strings.Builder
	for _, x := range out {
		sb.WriteString(strconv.Itoa(int(x.Lo)))
		sb.WriteByte('-')
		sb.WriteString(strconv.Itoa(int(x.Hi)))
		sb.WriteByte(',')
	}
	return &CharSet{R: out, key: sb.String()}
}

func Complement(c *CharSet) *CharSet {
	var out []Rng
	next := rune(0)
	for _, x := range c.R {
		if x.Lo > next {
			out = append(out, Rng{next, x.Lo - 1})
		}
		next = x.Hi + 1
	}
	if next <= MaxRune {
		out = append(out, Rng{next, MaxRune})
	}
	return NormSet(out)
}

func Minus(a, b *CharSet) *CharSet {
	nb := Complement(b)
	var out []Rng
	for _, x := range a.R {
		for _, y := range nb.R {
			lo, hi := x.Lo, x.Hi
			if y.Lo > lo {
				lo = y.Lo
			}
			if y.Hi < hi {
				hi = y.Hi
			}
			if lo <= hi {
				out = append(out, Rng{lo, hi})
			}
		}
	}
	return NormSet(out)
}

// ClassSet is the set-theoretic meaning of a class expression.
func ClassSet(e *Expr) *CharSet {
	switch e.Kind {
	case "any":
		return NormSet([]Rng{{0, MaxRune}})
	case "class":
		s := NormSet(e.Set)
		if e.Neg {
			s = Complement(s)
		}
		if e.HasS {
			t := NormSet(e.Sub)
			if e.SubN {
				t = Complement(t)
			}
			s = Minus(s, t)
		}
		return s
	}
	panic("not a class")
}

// Eng holds the hash-cons table (one per spec; not shared between goroutines).
type Eng struct {
	tab   map[string]*re
	none  *re
	eps   *re
	dmemo map[dkey]*re
}

type dkey struct {
	r *re
	c rune
}

func NewEng() *Eng {
	e := &Eng{tab: map[string]*re{}, dmemo: map[dkey]*re{}}
	e.none = &re{op: '0', key: "0"}
	e.eps = &re{op: 'e', key: "e"}
	return e
}

func (g *Eng) cons(r *re) *re {
	if x, ok := g.tab[r.key]; ok {
		return x
	}
	g.tab[r.key] = r
	return r
}

func (g *Eng) mkSet(c *CharSet) *re {
	if c.Empty() {
		return g.none
	}
	return g.cons(&re{op: 's', set: c, key: "s{" + c.key + "}"})
}

func (g *Eng) cat(a, b *re) *re {
	if a.op == '0' || b.op == '0' {
		return g.none
	}
	if a.op == 'e' {
		return b
	}
	if b.op == 'e' {
		return a
	}
	return g.cons(&re{op: '.', a: a, b: b, key: "(" + a.key + "." + b.key + ")"})
}

func (g *Eng) alt(a, b *re) *re {
	m := map[string]*re{}
	var add func(x *re)
	add = func(x *re) {
		switch x.op {
		case '0':
		case '|':
			for _, y := range x.alts {
				add(y)
			}
		default:
			m[x.key] = x
		}
	}
	add(a)
	add(b)
	if len(m) == 0 {
		return g.none
	}
	keys := make([]string, 0, len(m))
	for k := range m {
		keys = append(keys, k)
	}
	sort.Strings(keys)
	if len(keys) == 1 {
		return m[keys[0]]
	}
	r := &re{op: '|', key: "[" + strings.Join(keys, "|") + "]"}
	for _, k := range keys {
		r.alts = append(r.alts, m[k])
	}
	return g.cons(r)
}

func (g *Eng) star(a *re) *re {
	if a.op == '0' || a.op == 'e' {
		return g.eps
	}
	if a.op == '*' {
		return a
	}
	return g.cons(&re{op: '*', a: a, key: "(" + a.key + ")*"})
}

func nullable(r *re) bool {
	switch r.op {
	case 'e', '*':
		return true
	case '.':
		return nullable(r.a) && nullable(r.b)
	case '|':
		for _, x := range r.alts {
			if nullable(x) {
				return true
			}
		}
	}
	return false
}

func (g *Eng) deriv(r *re, c rune) *re {
	switch r.op {
	case '0', 'e':
		return g.none
	case 's':
		if r.set.Has(c) {
			return g.eps
		}
		return g.none
	}
	k := dkey{r, c}
	if d, ok := g.dmemo[k]; ok {
		return d
	}
	var out *re
	switch r.op {
	case '.':
		d := g.cat(g.deriv(r.a, c), r.b)
		if nullable(r.a) {
			out = g.alt(d, g.deriv(r.b, c))
		} else {
			out = d
		}
	case '|':
		out = g.none
		for _, x := range r.alts {
			out = g.alt(out, g.deriv(x, c))
		}
	case '*':
		out = g.cat(g.deriv(r.a, c), r)
	default:
		panic("op")
	}
	if len(g.dmemo) < 2000000 {
		g.dmemo[k] = out
	}
	return out
}

// Compile translates a (greedy) expression; macros are expanded through spec.
func (g *Eng) Compile(s *Spec, e *Expr) *re {
	switch e.Kind {
	case "lit":
		r := g.eps
		rs := []rune(e.Lit)
		for i := len(rs) - 1; i >= 0; i-- {
			r = g.cat(g.mkSet(NormSet([]Rng{{rs[i], rs[i]}})), r)
		}
		return r
	case "class", "any":
		return g.mkSet(ClassSet(e))
	case "ref":
		m := s.MacroByName(e.Ref)
		if m == nil {
			panic("undefined macro " + e.Ref)
		}
		return g.Compile(s, m.E)
	case "group":
		return g.Compile(s, e.Kids[0])
	case "seq":
		r := g.eps
		for i := len(e.Kids) - 1; i >= 0; i-- {
			r = g.cat(g.Compile(s, e.Kids[i]), r)
		}
		return r
	case "alt":
		r := g.none
		for i := len(e.Kids) - 1; i >= 0; i-- {
			r = g.alt(g.Compile(s, e.Kids[i]), r)
		}
		return r
	case "opt":
		return g.alt(g.Compile(s, e.Kids[0]), g.eps)
	case "star", "starng":
		return g.star(g.Compile(s, e.Kids[0]))
	case "plus", "plusng":
		k := g.Compile(s, e.Kids[0])
		return g.cat(k, g.star(k))
	}
	panic("expr kind " + e.Kind)
}

// Nullable reports whether e matches the empty string.
func (g *Eng) Nullable(s *Spec, e *Expr) bool { return nullable(g.Compile(s, e)) }

// HasEmptyClass reports whether some class in e denotes the empty set.
func HasEmptyClass(s *Spec, e *Expr, depth int) bool {
	if depth > 20 {
		return false
	}
	switch e.Kind {
	case "class":
		return ClassSet(e).Empty()
	case "ref":
		if m := s.MacroByName(e.Ref); m != nil {
			return HasEmptyClass(s, m.E, depth+1)
		}
	}
	for _, k := range e.Kids {
		if HasEmptyClass(s, k, depth) {
			return true
		}
	}
	return false
}

// DecodeRune mirrors bytes.Reader.ReadRune: invalid byte => (U+FFFD, 1).
func DecodeRune(in []byte, i int) (rune, int) {
	if i >= len(in) {
		return -1, 0
	}
	return utf8.DecodeRune(in[i:])
}
