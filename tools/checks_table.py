HOOK_COMMITS = []
NOTES = "All checks are property-based (rapid) or fuzzing searches against explicit oracles; see DESIGN.md. Known findings: known_findings.json."
NOT_YET = {}
add("C04", "rapid-generated grammars vs. independent canonical-LR(1)->LALR(1) reference (differential, both verdict and automaton isomorphism); thorough tier adds a coverage-guided native fuzz campaign over the same structured generator (rapid.MakeFuzz)",
    "Generated-input search: thousands of random grammars (not filtered by acceptance) per run; verdict and full automaton compared with an independent reference construction; 5% also through the real codegen.Generate diagnostic path. Shows absence of disagreement on the explored grammars only.",
    "Trusts the reference LALR(1) construction in harness/lib/cfgm (cross-checked against Earley by C01) and the documented desugaring; canonical LR(1) capped at 3000 states (skips counted).",
    "DESIGN.md §3 C04")
add("C01", "rapid-generated grammars x token sequences vs. Earley recogniser (membership oracle, both directions) on lox's table and on the compiled parser",
    "Generated-input search in two layers: thousands of grammars through lox's in-process LALR table, hundreds compiled end to end (real codegen.Generate + go build) and run on >100 sequences each; every verdict compared with an independent Earley recogniser.",
    "Trusts the Earley recogniser and the documented desugaring; the harness _Lexer hands out token ids (the generated lexer is C02's subject).",
    "DESIGN.md §3 C01")
add("C03", "rapid-generated grammars x sentences; compiled parser's action log and result tree vs. the self-certified reference derivation tree (differential)",
    "Generated-input search over sugar-heavy conflict-free grammars compiled end to end; for every sentence the numbered result tree (structure, argument order, sugar values, call order) must equal the projection of an independently computed, node-by-node validated derivation tree.",
    "Trusts the reference LALR(1) parser only as far as its tree passes validation against the grammar; harness Discard() functions are deterministic.",
    "DESIGN.md §3 C03")
add("C16", "rapid-generated grammars x sentences; _onBounds event log vs. spans of the reference derivation tree, plus with/without-_onBounds differential",
    "Generated-input search: every grammar compiled with and without _onBounds; exact sequence of (value, first, last) calls compared with the reference tree's reductions; differential run shows the hook changes nothing else.",
    "Same trusted base as C03; for *! helpers only value and ordered bounds are compared.",
    "DESIGN.md §3 C16")
add("C05", "rapid-generated operator tables x operator chains vs. independent precedence-climbing parser (differential), on lox's table and on compiled parsers",
    "Generated-input search over operator tables (levels, associativities, several operators per level, shuffled text order) and chains incl. every chain of <=3 operators for small tables; grouping compared with a precedence-climbing reference. The @right defect is a listed known finding attributed by an exact signature (tree equals the all-@left tree).",
    "Trusts the precedence-climbing reference; mixed associativity on one level is outside the domain (undocumented).",
    "DESIGN.md §3 C05")
add("C09", "rapid-generated grammars with @error x token sequences incl. lexer ERROR tokens (exhaustive up to length 3-4 for small alphabets); four invariants decided with Earley on G' and step bounds",
    "Generated-input search on compiled parsers: termination by step bounds (re-run at 100x before reporting), no silent acceptance, blame = end of shortest non-viable prefix, consumed symbols form a sentence of G'. Three genuine defects found this way were repaired; one residual (@error? absorbing an Error) is a listed known finding.",
    "Trusts Earley/viable-prefix computation; *! and @list are replaced by * and + in this check because facet 4 reads consumed symbols off the result tree.",
    "DESIGN.md §3 C09")
add("C02", "rapid-generated lexer specs x texts; compiled state machine driven by the real simplelexer vs. Brzozowski-derivative reference lexer (differential on the token stream)",
    "Generated-input search: hundreds of specs compiled end to end per run, 30 inputs each over a boundary-biased Unicode pool incl. invalid UTF-8; token type, offset and text compared with an independent derivative-based lexer up to the first error.",
    "Trusts the reference lexer (lib/lexm) and that simplelexer decodes bytes like bytes.Reader.ReadRune; pop on an empty mode stack is treated as unspecified.",
    "DESIGN.md §3 C02")
add("C07", "rapid-generated mode graphs and action orderings x texts walking the mode graph; compiled lexer vs. reference lexer with explicit mode stack (differential)",
    "Generated-input search over nested/recursive mode graphs, rules with several mode actions and emit/discard written at any position; streams compared with a reference lexer that applies mode actions in written order and the emit/discard regardless of position - also beyond lexical errors, where the reference follows the driver's recovery (rest of the line dropped, default mode) and stops before a pop that would reach below the stack level at the error.",
    "Same trusted base as C02, plus simplelexer's recovery policy as the definition of where lexing resumes after an error.",
    "DESIGN.md §3 C07")
add("C08", "rapid-generated non-greedy rules (prefix, body, self-overlapping terminators) x texts with terminator look-alikes; compiled lexer vs. an oracle written directly from the statement; second part: greedy rules sharing a prefix with the non-greedy rule and mode actions on non-greedy rules vs. C02's longest-run rule over the statement's languages",
    "Generated-input search in two parts. Part 1: the token must end at the first occurrence of the terminator after the prefix (>=1 repetition for +?) with all code points in between in the body set; greedy neighbours (disjoint first characters) by the derivative reference lexer. Part 2: greedy rules that share a prefix with the non-greedy rule (its shortest match as a literal, identifier-like rules, literals ending inside the repetition), non-greedy rules pushing / popping modes; every rule has the language the statement gives it and the stream is C02's rule over those languages. The cross-rule defect of the pinned tree is a listed known finding attributed by an exact model of that one behaviour.",
    "Part 1 keeps greedy rules off the non-greedy rules' first characters; part 2 trusts the reading 'a non-greedy rule's language = strings whose first terminator occurrence is at the end'.",
    "DESIGN.md §3 C08")
add("C11", "rapid-generated lexer specs without preconditions x texts; invariants over the recorded PushRune history (termination by step bounds, tiling of the input)",
    "Generated-input search with a recording proxy between the real simplelexer and the compiled state machine; the recorded history is replayed over the input bytes: EOF only at the end with nothing pending, tokens = accepted stretches, every byte in a token, a discarded stretch or an ERROR stretch; rejection of the spec with a diagnostic is the only other accepted outcome.",
    "Trusts simplelexer's resync policy as the definition of an ERROR stretch.",
    "DESIGN.md §3 C11")
HOOK_COMMITS.append("e22fee3")
add("C10", "rapid-generated specs through the real generator; decoded tables vs. derivative automaton by exhaustive product exploration per spec (equivalence over all strings), parser tables vs. constructed automaton, encoder round-trip over generated row sets (hook)",
    "Generated-input search in layer B: tables are read back from the generated file text by their documented format; lexer equivalence is decided per specification over all strings by exploring the product automaton (capped, skips counted); parser tables compared entry by entry; the row-compressing encoder is round-tripped on adversarial row sets through a verif-tagged hook.",
    "Trusts the derivative automaton as the meaning of the rules and the documented row format; without the hook (untagged build) the encoder sub-check is skipped and counted.",
    "DESIGN.md §3 C10")
add("C15", "exhaustive enumeration over a small universe plus rapid-generated range lists and class expressions vs. interval-set semantics; emitted-table probes at every class boundary",
    "Generated and exhaustive search on three levels: the range algebra (every list of <=3 ranges over 0..7, every pair of lists of <=2 over 0..5, random lists over the full code space; callbacks replayed), class expressions through the real front end, and boundary probes through automaton construction and the emitted table.",
    "Trusts the interval-set reference (lib/lexm); surrogates excluded from inputs.",
    "DESIGN.md §3 C15")
add("C19", "rapid-generated multi-file specs with tokens/externals/modes/@emit/macros/non-greedy tokens; constants, _TokenToString, decoded lexer and parser tables vs. the declaration order known by construction",
    "Generated-input search in layer B (real generator, generated text parsed with go/types and the table decoder) plus a compiled sample calling _TokenToString on every value in [-1,n+1].",
    "Declaration order is known by construction of the rendered files; files are read in file-name order.",
    "DESIGN.md §3 C19")
add("C17", "rapid-generated well-formed multi-file specs and single-fault variants (38 fault kinds, any placement); verdict and diagnostic position vs. the span of the injected declaration known from rendering",
    "Generated-input search: thousands of specs per run, every fault kind required to occur; accepted/rejected verdict checked in both directions and the diagnostic must point into the faulty declaration (file and line span), 5% also through codegen.Generate.",
    "For duplicate names either declaration is an acceptable position; info and error lines share one format.",
    "DESIGN.md §3 C17")
add("C12", "rapid-generated and mutated .lox texts through the in-process front end under recover; complete sweep of 30 Go-package configurations plus generated packages through the real generator and binary; native coverage-guided fuzzing (thorough)",
    "Generated-input search: tens of thousands of structurally mutated specifications per run (corpus = every grammar, example and documentation snippet of the repository + generated specs + hostile constants), every package configuration of a finite list through codegen.Generate with the real go list, a third also through the lox executable; outcome must be output-or-diagnostic, never a panic, a hang or a silent failure.",
    "A hang verdict needs a second, independent run of the lox binary that is still going after 120 s of wall-clock time and has itself burnt 60 s of CPU time (a loaded machine cannot produce one); panics are identified by their first frame inside the repository. The thorough tier's native fuzzing uses an instrumented (coverage-guided) copy of the test binary.",
    "DESIGN.md §3 C12")
add("C14", "complete sweep of the regeneration configuration space (directory x start state x invocation, seed-ordered) in a scratch copy of the working tree; byte-level round trip, two generator stages",
    "Exhaustive enumeration of a small finite space on every run: lox built from the working tree regenerates internal/parser and the three examples from every start state and invocation style; a second-stage lox rebuilt from the regenerated tree must reproduce the same bytes.",
    "A fact about one tree state: generation only varies the circumstances of regeneration.",
    "DESIGN.md §3 C14")
add("C13", "rapid stateful histories over one package directory (write spec, generate in-process / via binary from various working directories, delete, plant foreign files, touch) plus repeated in-process regeneration; byte equality with a clean generation",
    "Generated-history search: every generate step must reproduce, byte for byte, the three files and the --report text of a clean generation of the same package; repeated in-process generations sample Go's randomised map iteration orders.",
    "The clean generation (fresh directory, in-process) defines the canonical bytes.",
    "DESIGN.md §3 C13")
add("C18", "rapid-generated multi-package programs and goroutine workloads under the Go race detector, with a sequential run of the same workload as the differential oracle",
    "Generated-workload search: 2-4 generated packages linked into one -race binary, 2-32 goroutines released by a barrier with injected scheduling points and GOMAXPROCS in {2,8,16}; any race report or any result differing from the sequential run is a violation.",
    "The harness does not own the schedule; the race detector flags unsynchronised shared accesses independent of timing, logic-only interference shows only on the schedules that happened.",
    "DESIGN.md §3 C18")
add("C06", "rapid-generated (skeleton x type universe x parameter typing x method layout) packages whose legality is known by construction; verdict, diagnostic, compilation and run-time value flow checked end to end with the real go list",
    "Generated-input search over ~10^4 combinations (sampled without repetition): lox must accept exactly the legal bindings and name the production or method otherwise; accepted packages are compiled and run, and every action parameter is compared with the value its producer returned (identity for pointers/chans/funcs, zero for an absent optional).",
    "Legality follows Go assignability by construction of the type universe (no call to go/types in the oracle).",
    "DESIGN.md §3 C06")
