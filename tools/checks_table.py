HOOK_COMMITS = []
NOTES = "All checks are property-based (rapid) or fuzzing searches against explicit oracles; see DESIGN.md. Known findings: known_findings.json."
NOT_YET = {}
add("C04", "rapid-generated grammars vs. independent canonical-LR(1)->LALR(1) reference (differential, both verdict and automaton isomorphism)",
    "Generated-input search: thousands of random grammars (not filtered by acceptance) per run; verdict and full automaton compared with an independent reference construction; 5% also through the real codegen.Generate diagnostic path. Shows absence of disagreement on the explored grammars only.",
    "Trusts the reference LALR(1) construction in harness/lib/cfgm (cross-checked against Earley by C01) and the documented desugaring; canonical LR(1) capped at 3000 states (skips counted).",
    "DESIGN.md §3 C04")
