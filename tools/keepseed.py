#!/usr/bin/env python3
"""keepseed.py <id> <seed-dir> <property> <caught-by (comma list or 'none')> <needs...>
Copies a confirmed seeded change into /verif/seeded/<id>/ with a meta.json."""
import json, os, shutil, sys
id, src, prop, caught = sys.argv[1:5]
needs = " ".join(sys.argv[5:])
dst = os.path.join("/verif/seeded", id)
shutil.rmtree(dst, ignore_errors=True)
os.makedirs(dst)
shutil.copy(os.path.join(src, "patch.diff"), dst)
if os.path.isdir(os.path.join(src, "demo")):
    shutil.copytree(os.path.join(src, "demo"), os.path.join(dst, "demo"))
if os.path.exists(os.path.join(src, "notes.md")):
    shutil.copy(os.path.join(src, "notes.md"), os.path.join(dst, "notes.md"))
log = f"/var/tmp/seedlogs/{id}.log"
ran = open(log).read() if os.path.exists(log) else ""
meta = {
    "id": id,
    "property": prop,
    "written_by": "independent sub-agent given only the property text and a scratch worktree",
    "needs_to_manifest": needs,
    "confirmed": {
        "how": "tools/seedtest.sh in a scratch worktree of /repo: demo/run.sh exits 0 without the patch, the full suite (go test -vet=off -count=1 ./...) passes with the patch, demo/run.sh exits non-zero with the patch",
        "log": ran,
    },
    "caught_by": [] if caught == "none" else caught.split(","),
}
json.dump(meta, open(os.path.join(dst, "meta.json"), "w"), indent=1)
print("kept", dst)
