#!/bin/bash
# sweep.sh <tier> <seed>...: runall for several seeds, only non-zero results are printed in full
TIER="$1"; shift
cd "$(dirname "$0")/.."
for s in "$@"; do echo "=== seed $s"; ./tools/runall.sh "$TIER" "$s"; done
