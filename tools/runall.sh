#!/bin/bash
# runall.sh [tier] [seed] [ids...]: run checks one after another, print a summary table.
TIER="${1:-quick}"; SEED="${2:-1}"; shift 2 2>/dev/null
IDS="$*"; [ -z "$IDS" ] && IDS="C01 C02 C03 C04 C05 C06 C07 C08 C09 C10 C11 C12 C13 C14 C15 C16 C17 C18 C19"
cd "$(dirname "$0")/.."
for id in $IDS; do
  s=$(date +%s)
  out=$(VERIF_SEED=$SEED ./check $id --tier $TIER 2>&1); rc=$?
  e=$(date +%s)
  echo "$id rc=$rc $((e-s))s $(echo "$out" | grep -E '^SUMMARY' | sed 's/SUMMARY property=[A-Z0-9]* //')"
  [ $rc -ne 0 ] && echo "$out" | grep -vE '^(SUMMARY|KNOWN-FINDING)' | head -20
done
