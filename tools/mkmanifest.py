#!/usr/bin/env python3
"""Regenerates /verif/MANIFEST.json from the table below and validates it."""
import json, os, subprocess, sys
ROOT = os.path.dirname(os.path.dirname(os.path.abspath(__file__)))
props = [json.loads(l) for l in open(os.path.join(ROOT, "properties.jsonl"))]

# id -> (technique, level text, level note, design ref)
CHECKS = {}
def add(id, technique, text, note, ref):
    CHECKS[id] = dict(technique=technique, text=text, note=note, ref=ref)

exec(open(os.path.join(ROOT, "tools", "checks_table.py")).read())

manifest = {
    "version": 1,
    "setup_cmd": "cd /verif && ./tools/setup.sh",
    "hooks": {
        "guard": "verif",
        "enable": "go build tag: checks build the harness with `-tags verif` (hook file /repo/internal/codegen/hooks_verif.go); ./check falls back to an untagged build if the tagged one fails",
        "baseline_off_cmd": "cd /repo && GOFLAGS=-mod=mod GOPROXY=off GOSUMDB=off GOTOOLCHAIN=local go test -vet=off -count=1 ./...",
        "source_commits": HOOK_COMMITS,
        "add_only": True,
    },
    "engines": [
        {"name": "loxverif", "path": "/verif/harness", "serves_properties": sorted(CHECKS),
         "kind_free_text": "Go module (rapid v1.3.0 property tests + native go fuzzing) compiled against /repo's working tree via a replace directive; reference models in harness/lib (Earley, canonical-LR(1)->LALR(1), precedence climbing, Brzozowski-derivative lexer); batch compile pipeline for generated parsers"},
    ],
    "checks": [],
    "not_applicable": [],
    "notes": NOTES,
}
for p in props:
    id = p["id"]
    if id in CHECKS:
        c = CHECKS[id]
        manifest["checks"].append({
            "property_id": id,
            "quick_cmd": f"cd /verif && ./check {id} --tier quick",
            "thorough_cmd": f"cd /verif && ./check {id} --tier thorough",
            "evidence_file": f"/verif/evidence/{id}.json",
            "replay_cmd_template": f"cd /verif && ./check {id} --replay {{path}}",
            "engine": "loxverif",
            "level_claimed": {"category": "exploration", "text": c["text"], "design_ref": c["ref"]},
            "level_note": c["note"],
            "technique": c["technique"],
        })
    else:
        manifest["not_applicable"].append({"property_id": id, "reason": NOT_YET.get(id, "check not built yet (work in progress; see DESIGN.md)")})
json.dump(manifest, open(os.path.join(ROOT, "MANIFEST.json"), "w"), indent=1)
try:
    import jsonschema
    jsonschema.validate(manifest, json.load(open("/root/.vp/MANIFEST.schema.json")))
    print("MANIFEST.json valid:", len(manifest["checks"]), "checks,", len(manifest["not_applicable"]), "not applicable")
except ImportError:
    print("jsonschema not available; written without validation")
