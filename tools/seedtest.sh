#!/bin/bash
# seedtest.sh <name> <seed-dir> [--skip-suite] <check ids...>
# Confirms a seeded change (demo passes without it, fails with it, suite green with it)
# in a scratch worktree of /repo, then runs the given checks against that worktree.
set -u
export GOFLAGS=-mod=mod GOPROXY=off GOSUMDB=off GOTOOLCHAIN=local
NAME="$1"; SEED="$(realpath "$2")"; shift 2
SKIP=0; [ "${1:-}" = "--skip-suite" ] && { SKIP=1; shift; }
WT="/var/tmp/seedwt-$NAME"; STASH="/var/tmp/seedwt-$NAME.SEED"
git -C /repo worktree remove --force "$WT" 2>/dev/null; rm -rf "$STASH"
git -C /repo worktree add -q --detach "$WT" HEAD || exit 2
trap 'git -C /repo worktree remove --force "$WT" 2>/dev/null; rm -rf "$WT" "$STASH"' EXIT
mkdir -p "$WT/SEED"; cp -r "$SEED"/. "$WT/SEED/"
cd "$WT" || exit 2
if [ -f SEED/demo/run.sh ]; then
  bash SEED/demo/run.sh >"$WT/SEED/demo-clean.log" 2>&1; echo "demo without patch: rc=$? (want 0)"
fi
git apply SEED/patch.diff || { echo "PATCH DOES NOT APPLY"; exit 2; }
mv "$WT/SEED" "$STASH"
go build ./... || { echo "DOES NOT COMPILE"; exit 2; }
if [ $SKIP -eq 0 ]; then
  if go test -vet=off -count=1 -timeout 40m ./... >"$STASH/suite.log" 2>&1; then echo "suite with patch: PASS"; else echo "suite with patch: FAIL"; grep -E "^(FAIL|---)" "$STASH/suite.log" | head; fi
fi
mv "$STASH" "$WT/SEED"
if [ -f SEED/demo/run.sh ]; then
  bash SEED/demo/run.sh >"$WT/SEED/demo-patched.log" 2>&1; echo "demo with patch: rc=$? (want non-zero)"
fi
rm -rf "$WT/SEED"
for id in "$@"; do
  out=$(VERIF_REPO="$WT" /verif/check "$id" 2>&1); rc=$?
  echo "check $id: rc=$rc $(echo "$out" | grep -E '^VIOLATION' | head -1)"
  echo "$out" | grep -E '^  detail' | head -1 | cut -c1-300
  [ $rc -eq 2 ] && echo "$out" | tail -5
done
exit 0
