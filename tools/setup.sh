#!/bin/bash
# Offline setup: warm the Go build cache for the harness and the repo under test.
set -u
export GOFLAGS=-mod=mod GOPROXY=off GOSUMDB=off GOTOOLCHAIN=local
cd /verif/harness || exit 1
go build ./... || exit 1
go vet ./lib/... >/dev/null 2>&1 || true
for d in props/*/; do go test -c -tags verif -o /dev/null "./$d" >/dev/null 2>&1 || go test -c -o /dev/null "./$d" || exit 1; done
echo setup ok
