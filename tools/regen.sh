#!/bin/bash
# regen.sh [--write]: regenerate the checked-in generated parsers of /repo with
# lox built from /repo's working tree. Without --write: in a scratch copy, and
# report differences. With --write: in place (used when a fix: commit touches a template).
set -eu
export GOFLAGS=-mod=mod GOPROXY=off GOSUMDB=off GOTOOLCHAIN=local
REPO="${VERIF_REPO:-/repo}"
S="$(mktemp -d "${TMPDIR:-/var/tmp}/loxregen-XXXXXX")"
trap 'rm -rf "$S"' EXIT
if [ "${1:-}" = "--write" ]; then
  (cd "$REPO" && go build -o "$S/lox" ./cmd/lox)
  for d in internal/parser examples/calc examples/jsonc examples/bolox; do (cd "$REPO/$d" && "$S/lox" .); done
  # second stage: lox rebuilt from the regenerated front end must reproduce itself
  (cd "$REPO" && go build -o "$S/lox2" ./cmd/lox)
  for d in internal/parser examples/calc examples/jsonc examples/bolox; do (cd "$REPO/$d" && "$S/lox2" .); done
  git -C "$REPO" status --short
  exit 0
fi
rsync -a --exclude .git "$REPO/" "$S/repo/"
(cd "$S/repo" && go build -o "$S/lox" ./cmd/lox)
rc=0
for d in internal/parser examples/calc examples/jsonc examples/bolox; do
  if ! (cd "$S/repo/$d" && "$S/lox" .) >"$S/out.txt" 2>&1; then echo "LOX FAILED on $d:"; cat "$S/out.txt"; rc=1; fi
  for f in base.gen.go lexer.gen.go parser.gen.go; do
    if ! cmp -s "$S/repo/$d/$f" "$REPO/$d/$f"; then echo "DIFF $d/$f"; rc=1; fi
  done
done
exit $rc
