package cfg

import (
	"flag"
	"fmt"
	"os"
	"sort"
	"strconv"
	"testing"

	"pgregory.net/rapid"
)

type stats struct {
	n                                       int
	loxPanic, loxReject                     int
	tooBig                                  int
	bothAccept, bothConflict                int
	loxAcceptRefConflict, loxConflictRefAcc int
	tableMismatch, knownRight               int
	strings, inLang                         int
	memMismatch, refSelfMismatch            int
	withNullable                            int
	examples                                map[string][]string
}

func (s *stats) ex(kind, text string) {
	if s.examples == nil {
		s.examples = map[string][]string{}
	}
	if len(s.examples[kind]) < 3 {
		s.examples[kind] = append(s.examples[kind], text)
	}
}

func mutate(t *rapid.T, w []int, nT int, label string) []int {
	out := append([]int(nil), w...)
	switch rapid.IntRange(0, 3).Draw(t, label+"op") {
	case 0:
		if len(out) > 0 {
			i := rapid.IntRange(0, len(out)-1).Draw(t, label+"i")
			out = append(out[:i], out[i+1:]...)
		}
	case 1:
		i := rapid.IntRange(0, len(out)).Draw(t, label+"i")
		x := rapid.IntRange(2, nT-1).Draw(t, label+"x")
		out = append(out[:i], append([]int{x}, out[i:]...)...)
	case 2:
		if len(out) > 0 {
			i := rapid.IntRange(0, len(out)-1).Draw(t, label+"i")
			out[i] = rapid.IntRange(2, nT-1).Draw(t, label+"x")
		}
	case 3:
		if len(out) > 1 {
			i := rapid.IntRange(0, len(out)-2).Draw(t, label+"i")
			out[i], out[i+1] = out[i+1], out[i]
		}
	}
	return out
}

func runProto(t *testing.T, n int, o GenOpts, expr bool) *stats {
	st := &stats{}
	flag.Set("rapid.checks", strconv.Itoa(n))
	rapid.Check(t, func(rt *rapid.T) {
		var g *G
		if expr {
			g = GenExpr(rt)
		} else {
			g = GenG(rt, o)
		}
		st.n++
		text := g.Lox()
		lx := BuildLox(text)
		if lx.Panic != nil {
			st.loxPanic++
			st.ex("panic", fmt.Sprintf("%v\n%s", lx.Panic, text))
			return
		}
		if !lx.OK {
			st.loxReject++
			st.ex("reject", lx.Diag+"\n"+text)
			return
		}
		p := Desugar(g)
		ref := BuildRef(p, 3000)
		if ref.TooBig {
			st.tooBig++
			return
		}
		s := analyse(p)
		for i := p.NT; i < len(p.Names); i++ {
			if s.nullable[i] {
				st.withNullable++
				break
			}
		}
		switch {
		case lx.T.HasConflicts && ref.Conflict:
			st.bothConflict++
			return
		case lx.T.HasConflicts && !ref.Conflict:
			st.loxConflictRefAcc++
			st.ex("loxConflictRefAccept", text)
			return
		case !lx.T.HasConflicts && ref.Conflict:
			st.loxAcceptRefConflict++
			st.ex("loxAcceptRefConflict", text)
		default:
			st.bothAccept++
			mism, known := Compare(ref, lx)
			st.knownRight += known
			if len(mism) > 0 {
				st.tableMismatch++
				st.ex("table", fmt.Sprintf("%v\n%s", mism, text))
			}
		}
		// membership
		for k := 0; k < 12; k++ {
			w := Sentence(rt, p, rapid.IntRange(2, 6).Draw(rt, fmt.Sprintf("b%d", k)), fmt.Sprintf("s%d", k))
			if len(w) > 30 {
				continue
			}
			if k%2 == 1 {
				w = mutate(rt, w, p.NT, fmt.Sprintf("m%d", k))
			}
			in := Earley(p, w)
			st.strings++
			if in {
				st.inLang++
			}
			if !ref.Conflict && ref.Parse(w) != in && !o.Prec && !expr {
				st.refSelfMismatch++
				st.ex("refself", fmt.Sprintf("w=%v earley=%v\n%s", w, in, text))
			}
			if !o.Prec && !expr && LoxParse(lx, p.Names, w) != in {
				st.memMismatch++
				st.ex("membership", fmt.Sprintf("w=%v earley=%v\n%s", names(p, w), in, text))
			}
		}
	})
	return st
}

func names(p *Plain, w []int) []string {
	out := make([]string, len(w))
	for i, x := range w {
		out[i] = p.Names[x]
	}
	return out
}

func report(t *testing.T, name string, st *stats) {
	t.Logf("%s: n=%d panic=%d reject=%d tooBig=%d bothAccept=%d bothConflict=%d loxAcc/refConf=%d loxConf/refAcc=%d tableMismatch=%d knownRight=%d nullable=%d strings=%d inLang=%d memMismatch=%d refSelf=%d",
		name, st.n, st.loxPanic, st.loxReject, st.tooBig, st.bothAccept, st.bothConflict, st.loxAcceptRefConflict, st.loxConflictRefAcc, st.tableMismatch, st.knownRight, st.withNullable, st.strings, st.inLang, st.memMismatch, st.refSelfMismatch)
	kinds := make([]string, 0)
	for k := range st.examples {
		kinds = append(kinds, k)
	}
	sort.Strings(kinds)
	for _, k := range kinds {
		for _, e := range st.examples[k] {
			t.Logf("--- example %s:\n%s", k, e)
		}
	}
}

func TestProto(t *testing.T) {
	n := 3000
	if v := os.Getenv("N"); v != "" {
		n, _ = strconv.Atoi(v)
	}
	t.Run("plain", func(t *testing.T) { report(t, "plain", runProto(t, n, GenOpts{}, false)) })
	t.Run("sugar", func(t *testing.T) { report(t, "sugar", runProto(t, n, GenOpts{Sugar: true, Err: true}, false)) })
	t.Run("prec", func(t *testing.T) { report(t, "prec", runProto(t, n, GenOpts{Prec: true}, false)) })
	t.Run("expr", func(t *testing.T) { report(t, "expr", runProto(t, n/3, GenOpts{}, true)) })
}
