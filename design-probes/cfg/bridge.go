package cfg

import (
	"fmt"
	gotoken "go/token"
	"sort"
	"strings"

	"github.com/dcaiafa/lox/internal/ast"
	"github.com/dcaiafa/lox/internal/base/errlogger"
	"github.com/dcaiafa/lox/internal/parser"
	"github.com/dcaiafa/lox/internal/parsergen/lr1"
)

type Lox struct {
	OK    bool // front end + analysis succeeded
	Diag  string
	G     *lr1.Grammar
	T     *lr1.ParserTable
	Panic any
}

func BuildLox(text string) (res *Lox) {
	res = &Lox{}
	defer func() {
		if r := recover(); r != nil {
			res.Panic = r
			res.OK = false
		}
	}()
	fset := gotoken.NewFileSet()
	var sb strings.Builder
	errs := errlogger.New(fset, &sb)
	file := fset.AddFile("g.lox", -1, len(text))
	unit := parser.Parse(file, []byte(text), errs)
	if errs.HasError() {
		res.Diag = sb.String()
		return
	}
	spec := &ast.Spec{Units: []*ast.Unit{unit}}
	ctx := ast.NewContext(fset, errs)
	if !ctx.Analyze(spec, ast.AllPasses) {
		res.Diag = sb.String()
		return
	}
	res.G = ctx.Grammar
	res.T = lr1.ConstructLALR(ctx.Grammar)
	res.OK = true
	return
}

func prodKey(p *lr1.Prod) string {
	return p.Rule.Name + " = " + strings.Join(lr1.TermNames(p.Terms), " ")
}

// Compare checks that lox's automaton is isomorphic to the reference one
// (after precedence resolution). Returns human-readable mismatches.
// known counts entries that differ only by the @right-reads-as-@left defect.
func Compare(ref *RefLALR, lx *Lox) (mism []string, known int) {
	p := ref.P
	nameIdx := map[string]int{}
	for i, n := range p.Names {
		nameIdx[n] = i
	}
	keyToProd := map[string]int{}
	for i, pr := range p.Prods {
		keyToProd[pr.Key] = i
	}
	t := lx.T
	pair := map[int]int{0: 0}
	rev := map[int]int{0: 0}
	queue := []int{0}
	link := func(r, l int, why string) {
		if pr, ok := pair[r]; ok {
			if pr != l {
				mism = append(mism, fmt.Sprintf("state map clash ref %d -> lox %d vs %d (%s)", r, pr, l, why))
			}
			return
		}
		if rr, ok := rev[l]; ok && rr != r {
			mism = append(mism, fmt.Sprintf("state map clash lox %d <- ref %d vs %d (%s)", l, rr, r, why))
			return
		}
		pair[r] = l
		rev[l] = r
		queue = append(queue, r)
	}
	for len(queue) > 0 && len(mism) < 5 {
		r := queue[0]
		queue = queue[1:]
		ls := t.States[pair[r]]
		am := t.Actions(ls)
		seen := map[int]bool{}
		for _, term := range am.Terminals() {
			ti, ok := nameIdx[term.Name]
			if !ok {
				mism = append(mism, "unknown terminal "+term.Name)
				continue
			}
			seen[ti] = true
			acts := am.Get(term)
			ra := ref.Resolved[r][ti]
			if ra == nil {
				mism = append(mism, fmt.Sprintf("ref state %d: lox has extra action on %s", r, term.Name))
				continue
			}
			if acts.Len() != 1 {
				if ra.count() == 1 {
					mism = append(mism, fmt.Sprintf("ref state %d on %s: lox keeps %d actions, ref resolved", r, term.Name, acts.Len()))
				}
				continue
			}
			if ra.count() != 1 {
				mism = append(mism, fmt.Sprintf("ref state %d on %s: ref keeps %d actions, lox resolved", r, term.Name, ra.count()))
				continue
			}
			a := acts.Get(0)
			switch a.Type {
			case lr1.ActionAccept:
				if !ra.Accept {
					mism = append(mism, fmt.Sprintf("ref state %d on %s: lox accept, ref not", r, term.Name))
				}
			case lr1.ActionShift:
				if ra.Shift < 0 {
					mism = append(mism, fmt.Sprintf("ref state %d on %s: lox shift, ref %v", r, term.Name, ra))
				} else {
					link(ra.Shift, a.ShiftState.Index, "shift "+term.Name)
				}
			case lr1.ActionReduce:
				k := prodKey(a.Prods[0])
				pi, ok := keyToProd[k]
				if !ok {
					mism = append(mism, "unknown lox production "+k)
				} else if len(ra.Reduce) != 1 || ra.Reduce[0] != pi {
					if ref.RightShift[[2]int{r, ti}] {
						known++
					} else {
						mism = append(mism, fmt.Sprintf("ref state %d on %s: lox reduce %q, ref %+v", r, term.Name, k, ra))
					}
				}
			}
		}
		for ti := range ref.Resolved[r] {
			if !seen[ti] {
				mism = append(mism, fmt.Sprintf("ref state %d: lox lacks action on %s (ref %+v)", r, p.Names[ti], ref.Resolved[r][ti]))
			}
		}
		tm := t.Transitions(ls)
		seenNT := map[int]bool{}
		for _, in := range tm.Inputs() {
			rule, ok := in.(*lr1.Rule)
			if !ok {
				continue
			}
			ni, ok := nameIdx[rule.Name]
			if !ok {
				mism = append(mism, "unknown rule "+rule.Name)
				continue
			}
			seenNT[ni] = true
			rt, ok := ref.Goto[r][ni]
			if !ok {
				mism = append(mism, fmt.Sprintf("ref state %d: lox has extra goto on %s", r, rule.Name))
				continue
			}
			link(rt, tm.Get(in).Index, "goto "+rule.Name)
		}
		for ni := range ref.Goto[r] {
			if !seenNT[ni] {
				mism = append(mism, fmt.Sprintf("ref state %d: lox lacks goto on %s", r, p.Names[ni]))
			}
		}
	}
	if len(mism) == 0 && len(pair) != len(t.States) {
		// unreachable lox states would be odd but harmless; states count should match
		if len(t.States) != ref.NStates {
			mism = append(mism, fmt.Sprintf("state count lox %d ref %d", len(t.States), ref.NStates))
		}
	}
	sort.Strings(mism)
	return
}

// LoxParse interprets lox's table with a plain shift/reduce loop.
func LoxParse(lx *Lox, names []string, w []int) bool {
	t := lx.T
	terms := map[string]*lr1.Terminal{}
	for _, tm := range lx.G.Terminals {
		terms[tm.Name] = tm
	}
	stack := []*lr1.ItemSet{t.States[0]}
	pos := 0
	for steps := 0; steps < 100000; steps++ {
		la := 0
		if pos < len(w) {
			la = w[pos]
		}
		term := terms[names[la]]
		acts := t.Actions(stack[len(stack)-1]).Get(term)
		if acts.Len() != 1 {
			return false
		}
		a := acts.Get(0)
		switch a.Type {
		case lr1.ActionAccept:
			return true
		case lr1.ActionShift:
			stack = append(stack, a.ShiftState)
			pos++
		case lr1.ActionReduce:
			pr := a.Prods[0]
			stack = stack[:len(stack)-len(pr.Terms)]
			stack = append(stack, t.Transitions(stack[len(stack)-1]).Get(pr.Rule))
		}
	}
	panic("lox table parse did not terminate")
}
