package cfg

import (
	"fmt"

	"pgregory.net/rapid"
)

type GenOpts struct {
	Sugar bool
	Prec  bool
	Err   bool
}

func symTerm(t *rapid.T, g *G, nR int, label string) Term {
	if rapid.IntRange(0, 99).Draw(t, label+"k") < 55 {
		return Term{Kind: KSym, Name: g.Toks[rapid.IntRange(0, len(g.Toks)-1).Draw(t, label+"t")], IsTok: true}
	}
	return Term{Kind: KSym, Name: ruleName(rapid.IntRange(0, nR-1).Draw(t, label+"r"))}
}

func ruleName(i int) string { return fmt.Sprintf("r%c", 'a'+rune(i)) }

func anyTerm(t *rapid.T, g *G, nR int, o GenOpts, label string) Term {
	base := symTerm(t, g, nR, label)
	roll := rapid.IntRange(0, 99).Draw(t, label+"s")
	if o.Err && roll >= 95 {
		return Term{Kind: KErr}
	}
	if !o.Sugar || roll >= 30 {
		return base
	}
	k := []Kind{KOpt, KStar, KPlus, KStarF, KList, KListOpt}[rapid.IntRange(0, 5).Draw(t, label+"sk")]
	base.Kind = k
	if k == KList || k == KListOpt {
		base.Sep = g.Toks[rapid.IntRange(0, len(g.Toks)-1).Draw(t, label+"sep")]
		base.SepTk = true
	}
	return base
}

func GenG(t *rapid.T, o GenOpts) *G {
	nT := rapid.IntRange(2, 6).Draw(t, "nT")
	nR := rapid.IntRange(1, 5).Draw(t, "nR")
	g := &G{}
	for i := 0; i < nT; i++ {
		g.Toks = append(g.Toks, fmt.Sprintf("T%c", 'A'+rune(i)))
	}
	for i := 0; i < nR; i++ {
		r := Rule{Name: ruleName(i)}
		nP := rapid.IntRange(1, 3).Draw(t, "nP")
		seen := map[string]bool{}
		for j := 0; j < nP; j++ {
			lab := fmt.Sprintf("r%dp%d", i, j)
			var p Prod
			switch tmpl := rapid.IntRange(0, 9).Draw(t, lab+"tmpl"); {
			case tmpl <= 3: // guarded
				p.Terms = append(p.Terms, Term{Kind: KSym, Name: g.Toks[(j+rapid.IntRange(0, nT-1).Draw(t, lab+"g"))%nT], IsTok: true})
				for k, n := 0, rapid.IntRange(0, 3).Draw(t, lab+"n"); k < n; k++ {
					p.Terms = append(p.Terms, anyTerm(t, g, nR, o, fmt.Sprintf("%s_%d", lab, k)))
				}
			case tmpl == 4: // left recursive
				p.Terms = append(p.Terms, Term{Kind: KSym, Name: r.Name})
				if rapid.Bool().Draw(t, lab+"sep") {
					p.Terms = append(p.Terms, Term{Kind: KSym, Name: g.Toks[rapid.IntRange(0, nT-1).Draw(t, lab+"st")], IsTok: true})
				}
				p.Terms = append(p.Terms, symTerm(t, g, nR, lab+"x"))
			case tmpl == 5: // right recursive
				p.Terms = append(p.Terms, symTerm(t, g, nR, lab+"x"))
				if rapid.Bool().Draw(t, lab+"sep") {
					p.Terms = append(p.Terms, Term{Kind: KSym, Name: g.Toks[rapid.IntRange(0, nT-1).Draw(t, lab+"st")], IsTok: true})
				}
				p.Terms = append(p.Terms, Term{Kind: KSym, Name: r.Name})
			case tmpl == 6: // empty
			default: // free
				for k, n := 0, rapid.IntRange(1, 3).Draw(t, lab+"n"); k < n; k++ {
					p.Terms = append(p.Terms, anyTerm(t, g, nR, o, fmt.Sprintf("%s_%d", lab, k)))
				}
			}
			if o.Prec && len(p.Terms) > 0 && rapid.IntRange(0, 99).Draw(t, lab+"pq") < 35 {
				p.Prec = rapid.IntRange(1, 3).Draw(t, lab+"prec")
				p.Right = rapid.Bool().Draw(t, lab+"right")
			}
			k := fmt.Sprint(p.Terms)
			if seen[k] {
				continue
			}
			seen[k] = true
			r.Prods = append(r.Prods, p)
		}
		g.Rules = append(g.Rules, r)
	}
	makeProductive(g)
	return g
}

// GenExpr: operator-table grammars (precedence climbing shape).
func GenExpr(t *rapid.T) *G {
	g := &G{}
	nLevels := rapid.IntRange(1, 3).Draw(t, "levels")
	r := Rule{Name: "e"}
	tok := 0
	newTok := func() string {
		n := fmt.Sprintf("T%c", 'A'+rune(tok))
		tok++
		g.Toks = append(g.Toks, n)
		return n
	}
	for l := 1; l <= nLevels; l++ {
		right := rapid.Bool().Draw(t, fmt.Sprintf("right%d", l))
		for k, n := 0, rapid.IntRange(1, 2).Draw(t, fmt.Sprintf("ops%d", l)); k < n; k++ {
			op := newTok()
			r.Prods = append(r.Prods, Prod{
				Terms: []Term{{Kind: KSym, Name: "e"}, {Kind: KSym, Name: op, IsTok: true}, {Kind: KSym, Name: "e"}},
				Prec:  l, Right: right})
		}
	}
	num, lp, rp := newTok(), newTok(), newTok()
	r.Prods = append(r.Prods,
		Prod{Terms: []Term{{Kind: KSym, Name: num, IsTok: true}}},
		Prod{Terms: []Term{{Kind: KSym, Name: lp, IsTok: true}, {Kind: KSym, Name: "e"}, {Kind: KSym, Name: rp, IsTok: true}}})
	g.Rules = []Rule{r}
	return g
}

func makeProductive(g *G) {
	prod := map[string]bool{}
	for _, t := range g.Toks {
		prod[t] = true
	}
	termOK := func(t Term) bool {
		switch t.Kind {
		case KOpt, KStar, KStarF, KListOpt, KErr:
			return true
		case KList:
			return prod[t.Name] && prod[t.Sep]
		default:
			return prod[t.Name]
		}
	}
	for changed := true; changed; {
		changed = false
		for _, r := range g.Rules {
			if prod[r.Name] {
				continue
			}
			for _, p := range r.Prods {
				ok := true
				for _, t := range p.Terms {
					ok = ok && termOK(t)
				}
				if ok {
					prod[r.Name] = true
					changed = true
					break
				}
			}
		}
	}
	for i := range g.Rules {
		if !prod[g.Rules[i].Name] {
			g.Rules[i].Prods = append(g.Rules[i].Prods, Prod{Terms: []Term{{Kind: KSym, Name: g.Toks[i%len(g.Toks)], IsTok: true}}})
			prod[g.Rules[i].Name] = true
		}
	}
}

// Sentence draws a random derivation (depth-bounded) from the plain grammar.
func Sentence(t *rapid.T, p *Plain, budget int, label string) []int {
	const inf = 1 << 20
	h := make([]int, len(p.Names))
	for i := range h {
		if !p.IsTerm(i) {
			h[i] = inf
		}
	}
	ph := func(pr PProd) int {
		m := 0
		for _, x := range pr.RHS {
			if h[x] > m {
				m = h[x]
			}
		}
		if m >= inf {
			return inf
		}
		return m + 1
	}
	for changed := true; changed; {
		changed = false
		for _, pr := range p.Prods {
			if v := ph(pr); v < h[pr.LHS] {
				h[pr.LHS] = v
				changed = true
			}
		}
	}
	var out []int
	n := 0
	var derive func(sym, b int)
	derive = func(sym, b int) {
		if p.IsTerm(sym) {
			out = append(out, sym)
			return
		}
		var cands []int
		for _, q := range p.ByLHS[sym] {
			if ph(p.Prods[q]) <= b || len(out) > 40 && ph(p.Prods[q]) == h[sym] {
				cands = append(cands, q)
			}
		}
		if len(cands) == 0 {
			for _, q := range p.ByLHS[sym] {
				if ph(p.Prods[q]) == h[sym] {
					cands = append(cands, q)
				}
			}
		}
		n++
		q := cands[rapid.IntRange(0, len(cands)-1).Draw(t, fmt.Sprintf("%sd%d", label, n))]
		for _, x := range p.Prods[q].RHS {
			derive(x, b-1)
		}
	}
	if h[p.Prods[0].LHS] >= inf {
		return nil
	}
	derive(p.Prods[0].RHS[0], budget)
	return out
}
