package cfg

import (
	"bytes"
	"encoding/json"
	"flag"
	"fmt"
	gotoken "go/token"
	"os"
	"os/exec"
	"path/filepath"
	"strings"
	"sync"
	"testing"
	"time"

	"github.com/dcaiafa/lox/internal/base/errlogger"
	"github.com/dcaiafa/lox/internal/codegen"
	"pgregory.net/rapid"
)

func goType(t Term) string {
	switch t.Kind {
	case KErr:
		return "Error"
	case KSym, KOpt:
		if t.IsTok {
			return "Token"
		}
		return "*nodeT"
	default:
		if t.IsTok {
			return "[]Token"
		}
		return "[]*nodeT"
	}
}

// UserGo renders the uniform action file for a grammar.
func UserGo(pkg string, g *G) string {
	var b strings.Builder
	fmt.Fprintf(&b, `package %s

type Token struct{ ID, Idx int }

func itoa(n int) string {
	if n < 0 {
		return "-" + itoa(-n)
	}
	if n < 10 {
		return string(rune('0' + n))
	}
	return itoa(n/10) + string(rune('0'+n%%10))
}

func (t Token) Discard() bool { return t.ID%%2 == 1 }

type nodeT struct {
	Rule string
	Kids []any
}

func (n *nodeT) Discard() bool { return false }

type prs struct {
	lox
	log  []string
	errs int
	res  *nodeT
	steps, limit, firstErr, reads int
}

func (p *prs) step() {
	p.steps++
	if p.steps > p.limit {
		panic("STEPBOUND")
	}
}

type lexT struct {
	toks []int
	i    int
	p    *prs
}

func frontier(v any, out *[]int) {
	switch v := v.(type) {
	case Token:
		if v.ID != 0 {
			*out = append(*out, v.Idx)
		}
	case Error:
		*out = append(*out, -1)
	case *nodeT:
		if v != nil {
			for _, k := range v.Kids {
				frontier(k, out)
			}
		}
	case []Token:
		for _, k := range v {
			frontier(k, out)
		}
	case []*nodeT:
		for _, k := range v {
			frontier(k, out)
		}
	}
}

func (l *lexT) ReadToken() (Token, int) {
	l.p.reads++
	if l.p.reads > len(l.toks)+50 {
		panic("READBOUND")
	}
	if l.i >= len(l.toks) {
		return Token{Idx: len(l.toks)}, EOF
	}
	t := Token{ID: l.toks[l.i], Idx: l.i}
	l.i++
	return t, t.ID
}

func show(v any) string {
	switch v := v.(type) {
	case Token:
		if v == (Token{}) {
			return "_"
		}
		return "t" + itoa(v.Idx)
	case Error:
		return "E"
	case *nodeT:
		if v == nil {
			return "nil"
		}
		s := v.Rule + "("
		for i, k := range v.Kids {
			if i > 0 {
				s += " "
			}
			s += show(k)
		}
		return s + ")"
	case []Token:
		s := "["
		for i, k := range v {
			if i > 0 {
				s += " "
			}
			s += show(k)
		}
		return s + "]"
	case []*nodeT:
		s := "["
		for i, k := range v {
			if i > 0 {
				s += " "
			}
			s += show(k)
		}
		return s + "]"
	}
	return "?"
}

type Result struct {
	FirstErr int
	Front []int
	Reads int
	OK   bool
	Errs int
	Tree string
	Log  []string
	Panic string
}

func Run(toks []int) (r Result) {
	defer func() {
		if x := recover(); x != nil {
			switch x := x.(type) {
			case string:
				r.Panic = x
			case error:
				r.Panic = x.Error()
			default:
				r.Panic = "panic"
			}
		}
	}()
	p := &prs{limit: 2000 + 200*len(toks), firstErr: -2}
	defer func() { r.FirstErr = p.firstErr; r.Reads = p.reads; r.Errs = p.errs }()
	r.OK = p.parse(&lexT{toks: toks, p: p})
	frontier(p.res, &r.Front)
	r.Errs = p.errs
	r.Tree = show(p.res)
	r.Log = p.log
	return
}
`, pkg)
	for ri, r := range g.Rules {
		seen := map[string]bool{}
		for _, p := range r.Prods {
			var params, kids, sig []string
			for i, t := range p.Terms {
				params = append(params, fmt.Sprintf("a%d %s", i, goType(t)))
				kids = append(kids, fmt.Sprintf("a%d", i))
				sig = append(sig, goType(t))
			}
			k := strings.Join(sig, ",")
			if seen[k] {
				continue
			}
			seen[k] = true
			fmt.Fprintf(&b, "\nfunc (p *prs) on_%s__s%d(%s) *nodeT {\n", r.Name, len(seen), strings.Join(params, ", "))
			b.WriteString("\tp.step()\n")
			for i, t := range p.Terms {
				if t.Kind == KErr {
					fmt.Fprintf(&b, "\tp.errs++\n\tif p.firstErr == -2 { p.firstErr = a%d.Token.Idx }\n", i)
				}
			}
			fmt.Fprintf(&b, "\tn := &nodeT{Rule: %q, Kids: []any{%s}}\n", r.Name, strings.Join(kids, ", "))
			fmt.Fprintf(&b, "\tp.log = append(p.log, %q)\n", r.Name)
			if ri == 0 {
				b.WriteString("\tp.res = n\n")
			}
			b.WriteString("\treturn n\n}\n")
		}
	}
	return b.String()
}

type e2eCase struct {
	G      *G
	P      *Plain
	Inputs [][]int
	Dir    string
	Pkg    string
	GenOK  bool
	Diag   string
}

type Res struct {
	FirstErr int
	Front    []int
	Reads    int
	OK       bool
	Errs     int
	Tree     string
	Log      []string
	Panic    string
}

func runBatch(t *testing.T, scratch string, cases []*e2eCase) map[string][]Res {
	os.RemoveAll(scratch)
	must := func(err error) {
		if err != nil {
			t.Fatal(err)
		}
	}
	must(os.MkdirAll(scratch, 0o755))
	must(os.WriteFile(filepath.Join(scratch, "go.mod"), []byte("module verifscratch\n\ngo 1.23.0\n"), 0o644))
	os.Setenv("GOMAXPROCS", "1")
	if d := os.Getenv("PKGDRIVER"); d != "" {
		os.Setenv("GOPACKAGESDRIVER", d)
	}
	os.Setenv("GOFLAGS", "-mod=readonly")
	start := time.Now()
	var wg sync.WaitGroup
	sem := make(chan struct{}, 8)
	for i, c := range cases {
		c.Pkg = fmt.Sprintf("c%03d", i)
		c.Dir = filepath.Join(scratch, c.Pkg)
		must(os.MkdirAll(c.Dir, 0o755))
		must(os.WriteFile(filepath.Join(c.Dir, "g.lox"), []byte(c.G.Lox()), 0o644))
		must(os.WriteFile(filepath.Join(c.Dir, "user.go"), []byte(UserGo(c.Pkg, c.G)), 0o644))
		wg.Add(1)
		go func(c *e2eCase) {
			defer wg.Done()
			sem <- struct{}{}
			defer func() { <-sem }()
			fset := gotoken.NewFileSet()
			var sb strings.Builder
			errs := errlogger.New(fset, &sb)
			c.GenOK = codegen.Generate(&codegen.Config{Fset: fset, Errs: errs, Dir: c.Dir})
			c.Diag = sb.String()
		}(c)
	}
	wg.Wait()
	nOK, shown := 0, 0
	for _, c := range cases {
		if c.GenOK {
			nOK++
		} else if shown < 3 {
			shown++
			t.Logf("generate failed: %s\n%s", c.Diag, c.G.Lox())
		}
	}
	t.Logf("generated %d/%d in %v", nOK, len(cases), time.Since(start))

	var d strings.Builder
	d.WriteString("package main\n\nimport (\n\t\"encoding/json\"\n\t\"os\"\n")
	for _, c := range cases {
		if c.GenOK {
			fmt.Fprintf(&d, "\t%s \"verifscratch/%s\"\n", c.Pkg, c.Pkg)
		}
	}
	d.WriteString(")\n\nfunc main() {\n\tvar in map[string][][]int\n\tjson.NewDecoder(os.Stdin).Decode(&in)\n\tout := map[string]any{}\n")
	for _, c := range cases {
		if c.GenOK {
			fmt.Fprintf(&d, "\t{ var rs []%s.Result; for _, w := range in[%q] { rs = append(rs, %s.Run(w)) }; out[%q] = rs }\n", c.Pkg, c.Pkg, c.Pkg, c.Pkg)
		}
	}
	d.WriteString("\tjson.NewEncoder(os.Stdout).Encode(out)\n}\n")
	must(os.MkdirAll(filepath.Join(scratch, "drv"), 0o755))
	must(os.WriteFile(filepath.Join(scratch, "drv", "main.go"), []byte(d.String()), 0o644))

	start = time.Now()
	build := exec.Command("go", "build", "-o", filepath.Join(scratch, "drv", "drv"), "./drv")
	build.Dir = scratch
	build.Env = append(os.Environ(), "GOMAXPROCS=4", "GOPACKAGESDRIVER=off")
	out, err := build.CombinedOutput()
	if err != nil {
		t.Fatalf("build failed: %v\n%s", err, out)
	}
	t.Logf("built in %v", time.Since(start))

	in := map[string][][]int{}
	for _, c := range cases {
		if c.GenOK {
			in[c.Pkg] = c.Inputs
		}
	}
	inJSON, _ := json.Marshal(in)
	run := exec.Command(filepath.Join(scratch, "drv", "drv"))
	run.Stdin = bytes.NewReader(inJSON)
	outJSON, err := run.Output()
	must(err)
	var res map[string][]Res
	must(json.Unmarshal(outJSON, &res))
	return res
}

func TestE2E(t *testing.T) {
	nCases := 48
	if v := os.Getenv("NC"); v != "" {
		fmt.Sscan(v, &nCases)
	}
	scratch := "/var/tmp/proto-scratch" + os.Getenv("SHARD")
	defer os.RemoveAll(scratch)
	var cases []*e2eCase
	flag.Set("rapid.checks", "2000")
	rapid.Check(t, func(rt *rapid.T) {
		if len(cases) >= nCases {
			return
		}
		g := GenG(rt, GenOpts{Sugar: true})
		lx := BuildLox(g.Lox())
		if !lx.OK || lx.T.HasConflicts {
			return
		}
		p := Desugar(g)
		c := &e2eCase{G: g, P: p}
		for k := 0; k < 30; k++ {
			w := Sentence(rt, p, rapid.IntRange(2, 6).Draw(rt, fmt.Sprintf("b%d", k)), fmt.Sprintf("s%d", k))
			if len(w) > 30 {
				continue
			}
			if k%2 == 1 {
				w = mutate(rt, w, p.NT, fmt.Sprintf("m%d", k))
			}
			c.Inputs = append(c.Inputs, w)
		}
		cases = append(cases, c)
	})
	res := runBatch(t, scratch, cases)
	total, inLang, mism := 0, 0, 0
	for _, c := range cases {
		if !c.GenOK {
			continue
		}
		for i, w := range c.Inputs {
			r := res[c.Pkg][i]
			want := Earley(c.P, w)
			total++
			if want {
				inLang++
			}
			got := r.OK && r.Errs == 0 && r.Panic == ""
			if got != want {
				mism++
				if mism <= 3 {
					t.Logf("MISMATCH w=%v want=%v got=%+v\n%s", names(c.P, w), want, r, c.G.Lox())
				}
			}
		}
	}
	t.Logf("strings=%d inLang=%d mismatches=%d", total, inLang, mism)
}
