package cfg

import (
	"flag"
	"fmt"
	"os"
	"testing"

	"pgregory.net/rapid"
)

// viableLen returns the length of the longest viable prefix of w in L(p)
// (Earley set non-empty), i.e. index of the first offending token, or len(w)+1
// when w itself is a sentence / len(w) when only EOF is offending.
func firstBad(p *Plain, w []int) int {
	// try prefixes; O(n^4) but inputs are short
	for k := 1; k <= len(w); k++ {
		if !viable(p, w[:k]) {
			return k - 1
		}
	}
	if Earley(p, w) {
		return len(w) + 1
	}
	return len(w) // EOF is the offending token
}

func viable(p *Plain, w []int) bool {
	s := analyse(p)
	n := len(w)
	sets := make([]map[eitem]bool, n+1)
	order := make([][]eitem, n+1)
	for i := range sets {
		sets[i] = map[eitem]bool{}
	}
	add := func(i int, it eitem) {
		if !sets[i][it] {
			sets[i][it] = true
			order[i] = append(order[i], it)
		}
	}
	add(0, eitem{0, 0, 0})
	for i := 0; i <= n; i++ {
		for k := 0; k < len(order[i]); k++ {
			it := order[i][k]
			pr := p.Prods[it.P]
			if it.D < len(pr.RHS) {
				x := pr.RHS[it.D]
				if p.IsTerm(x) {
					if i < n && w[i] == x {
						add(i+1, eitem{it.P, it.D + 1, it.O})
					}
				} else {
					for _, q := range p.ByLHS[x] {
						add(i, eitem{q, 0, i})
					}
					if s.nullable[x] {
						add(i, eitem{it.P, it.D + 1, it.O})
					}
				}
			} else {
				for _, jt := range order[it.O] {
					pj := p.Prods[jt.P]
					if jt.D < len(pj.RHS) && pj.RHS[jt.D] == pr.LHS {
						add(i, eitem{jt.P, jt.D + 1, jt.O})
					}
				}
			}
		}
	}
	return len(sets[n]) > 0
}

func TestC09Probe(t *testing.T) {
	nCases := 64
	if v := os.Getenv("NC"); v != "" {
		fmt.Sscan(v, &nCases)
	}
	scratch := "/var/tmp/proto-scratch-c09"
	defer os.RemoveAll(scratch)
	var cases []*e2eCase
	flag.Set("rapid.checks", "4000")
	rapid.Check(t, func(rt *rapid.T) {
		if len(cases) >= nCases {
			return
		}
		g := GenG(rt, GenOpts{Sugar: false, Err: true})
		// force at least one @error production: add catch-all to start with prob 1/2, and one inside
		hasErr := false
		for _, r := range g.Rules {
			for _, p := range r.Prods {
				for _, tm := range p.Terms {
					hasErr = hasErr || tm.Kind == KErr
				}
			}
		}
		if !hasErr {
			ri := rapid.IntRange(0, len(g.Rules)-1).Draw(rt, "eri")
			var p Prod
			switch rapid.IntRange(0, 2).Draw(rt, "eshape") {
			case 0:
				p.Terms = []Term{{Kind: KErr}}
			case 1:
				p.Terms = []Term{{Kind: KErr}, {Kind: KSym, Name: g.Toks[rapid.IntRange(0, len(g.Toks)-1).Draw(rt, "et")], IsTok: true}}
			case 2:
				p.Terms = []Term{{Kind: KSym, Name: g.Toks[rapid.IntRange(0, len(g.Toks)-1).Draw(rt, "et0")], IsTok: true}, {Kind: KErr}, {Kind: KSym, Name: g.Toks[rapid.IntRange(0, len(g.Toks)-1).Draw(rt, "et1")], IsTok: true}}
			}
			g.Rules[ri].Prods = append(g.Rules[ri].Prods, p)
		}
		lx := BuildLox(g.Lox())
		if !lx.OK || lx.T.HasConflicts {
			return
		}
		p := Desugar(g)
		c := &e2eCase{G: g, P: p}
		for k := 0; k < 40; k++ {
			w := Sentence(rt, p, rapid.IntRange(2, 6).Draw(rt, fmt.Sprintf("b%d", k)), fmt.Sprintf("s%d", k))
			if len(w) > 25 {
				continue
			}
			// strip ERROR terminals the derivation may contain; then mutate
			var w2 []int
			for _, x := range w {
				if x != 1 {
					w2 = append(w2, x)
				}
			}
			w = w2
			for m, nm := 0, rapid.IntRange(0, 3).Draw(rt, fmt.Sprintf("nm%d", k)); m < nm; m++ {
				w = mutate(rt, w, p.NT, fmt.Sprintf("m%d_%d", k, m))
			}
			c.Inputs = append(c.Inputs, w)
		}
		cases = append(cases, c)
	})
	res := runBatch(t, scratch, cases)
	var total, sent, nonTerm, panics, silent, f3checked, f3bad, f4checked, f4bad, recovered int
	ex := map[string]int{}
	show := func(kind string, c *e2eCase, w []int, r Res, extra string) {
		if ex[kind] < 2 {
			ex[kind]++
			t.Logf("--- %s: w=%v %s\nres=%+v\n%s", kind, names(c.P, w), extra, r, c.G.Lox())
		}
	}
	for _, c := range cases {
		if !c.GenOK {
			continue
		}
		for i, w := range c.Inputs {
			r := res[c.Pkg][i]
			total++
			inL := Earley(c.P, w) // G' membership (ERROR terminal never in w)
			if inL {
				sent++
			}
			if r.Panic == "STEPBOUND" || r.Panic == "READBOUND" {
				nonTerm++
				show("nonterm", c, w, r, "")
				continue
			}
			if r.Panic != "" {
				panics++
				show("panic", c, w, r, "")
				continue
			}
			if r.Errs > 0 {
				recovered++
			}
			if !inL && r.OK && r.Errs == 0 {
				silent++
				show("silent", c, w, r, "")
			}
			if !inL && r.FirstErr != -2 {
				f3checked++
				fb := firstBad(c.P, w)
				if r.FirstErr != fb {
					f3bad++
					show("facet3", c, w, r, fmt.Sprintf("firstBad=%d", fb))
				}
			}
			if r.OK {
				f4checked++
				// frontier must be sentence of G'
				var sym []int
				okSub := true
				last := -1
				for _, f := range r.Front {
					if f == -1 {
						sym = append(sym, 1)
						continue
					}
					if f <= last || f >= len(w) {
						okSub = false
						break
					}
					last = f
					sym = append(sym, w[f])
				}
				if !okSub || !Earley(c.P, sym) {
					f4bad++
					show("facet4", c, w, r, fmt.Sprintf("front=%v", r.Front))
				}
			}
		}
	}
	t.Logf("total=%d sentences=%d recovered=%d nonterm=%d panics=%d silent=%d facet3 %d/%d bad facet4 %d/%d bad",
		total, sent, recovered, nonTerm, panics, silent, f3bad, f3checked, f4bad, f4checked)
}
