// Probe: derivative-based reference lexer vs lox's in-process DFA (layer A).
package lex

import (
	"flag"
	"fmt"
	gotoken "go/token"
	"os"
	"sort"
	"strconv"
	"strings"
	"testing"
	"unicode/utf8"

	"github.com/dcaiafa/lox/internal/ast"
	"github.com/dcaiafa/lox/internal/base/errlogger"
	"github.com/dcaiafa/lox/internal/lexergen/dfa"
	"github.com/dcaiafa/lox/internal/lexergen/mode"
	"github.com/dcaiafa/lox/internal/lexergen/rang3"
	"github.com/dcaiafa/lox/internal/parser"
	"pgregory.net/rapid"
)

// ---- spec model -----------------------------------------------------------

type rng struct{ lo, hi rune }

type expr struct {
	kind string // lit class any seq alt opt star plus
	lit  string
	set  []rng // class: positive ranges
	neg  bool
	sub  []rng // class difference: set - sub (when non-nil)
	kids []*expr
}

var pool = []rune{'a', 'b', 'c', 'd', '0', '1', ' ', '-', '\'', ']', '\\', 0xE9, 0x7FF, 0x800, 0xFFFF, 0x10000, 0x10FFFF, 0}

func esc(r rune, inClass bool) string {
	switch {
	case r == '\\':
		return `\\`
	case r == '\n':
		return `\n`
	case r == '\'' && !inClass:
		return `\'`
	case r == '-' && inClass:
		return `\-`
	case r == ']' && inClass:
		return `\u005D`
	case r >= 0x20 && r < 0x7F:
		return string(r)
	case r <= 0xFFFF:
		return fmt.Sprintf(`\u%04X`, r)
	default:
		return fmt.Sprintf(`\U%08X`, r)
	}
}

func classText(rs []rng, neg bool) string {
	var b strings.Builder
	if neg {
		b.WriteString("~")
	}
	b.WriteString("[")
	for _, r := range rs {
		b.WriteString(esc(r.lo, true))
		if r.hi != r.lo {
			b.WriteString("-")
			b.WriteString(esc(r.hi, true))
		}
	}
	b.WriteString("]")
	return b.String()
}

func (e *expr) text(top bool) string {
	switch e.kind {
	case "lit":
		var b strings.Builder
		b.WriteString("'")
		for _, r := range e.lit {
			b.WriteString(esc(r, false))
		}
		b.WriteString("'")
		return b.String()
	case "class":
		s := classText(e.set, e.neg)
		if e.sub != nil {
			s += " - " + classText(e.sub, false)
		}
		return s
	case "any":
		return "."
	case "seq":
		parts := make([]string, len(e.kids))
		for i, k := range e.kids {
			parts[i] = k.text(false)
			if k.kind == "alt" {
				parts[i] = "(" + parts[i] + ")"
			}
		}
		return strings.Join(parts, " ")
	case "alt":
		parts := make([]string, len(e.kids))
		for i, k := range e.kids {
			parts[i] = k.text(false)
		}
		s := strings.Join(parts, " | ")
		if !top {
			return "(" + s + ")"
		}
		return s
	case "opt", "star", "plus":
		op := map[string]string{"opt": "?", "star": "*", "plus": "+"}[e.kind]
		k := e.kids[0]
		s := k.text(false)
		if k.kind == "seq" || k.kind == "opt" || k.kind == "star" || k.kind == "plus" || (k.kind == "class" && k.sub != nil) {
			s = "(" + s + ")"
		}
		return s + op
	}
	panic(e.kind)
}

func genRng(t *rapid.T, l string) rng {
	a := pool[rapid.IntRange(0, len(pool)-1).Draw(t, l+"a")]
	if rapid.Bool().Draw(t, l+"single") {
		return rng{a, a}
	}
	b := pool[rapid.IntRange(0, len(pool)-1).Draw(t, l+"b")]
	if a > b {
		a, b = b, a
	}
	return rng{a, b}
}

func genExpr(t *rapid.T, depth int, l string) *expr {
	max := 7
	if depth <= 0 {
		max = 2
	}
	switch rapid.IntRange(0, max).Draw(t, l+"k") {
	case 0:
		n := rapid.IntRange(1, 3).Draw(t, l+"n")
		var sb strings.Builder
		for i := 0; i < n; i++ {
			sb.WriteRune(pool[rapid.IntRange(0, len(pool)-1).Draw(t, fmt.Sprintf("%sl%d", l, i))])
		}
		return &expr{kind: "lit", lit: sb.String()}
	case 1:
		e := &expr{kind: "class", neg: rapid.IntRange(0, 4).Draw(t, l+"neg") == 0}
		for i, n := 0, rapid.IntRange(1, 3).Draw(t, l+"n"); i < n; i++ {
			e.set = append(e.set, genRng(t, fmt.Sprintf("%sr%d", l, i)))
		}
		if rapid.IntRange(0, 4).Draw(t, l+"diff") == 0 {
			e.sub = []rng{genRng(t, l+"sub")}
		}
		return e
	case 2:
		return &expr{kind: "any"}
	case 3, 4:
		e := &expr{kind: "seq"}
		for i, n := 0, rapid.IntRange(2, 3).Draw(t, l+"n"); i < n; i++ {
			e.kids = append(e.kids, genExpr(t, depth-1, fmt.Sprintf("%ss%d", l, i)))
		}
		return e
	case 5:
		e := &expr{kind: "alt"}
		for i, n := 0, rapid.IntRange(2, 3).Draw(t, l+"n"); i < n; i++ {
			e.kids = append(e.kids, genExpr(t, depth-1, fmt.Sprintf("%sa%d", l, i)))
		}
		return e
	default:
		k := []string{"opt", "star", "plus"}[rapid.IntRange(0, 2).Draw(t, l+"c")]
		return &expr{kind: k, kids: []*expr{genExpr(t, depth-1, l+"x")}}
	}
}

// ---- reference regex (derivatives) ------------------------------------------

type re struct {
	op   byte // '0' empty-set, 'e' epsilon, 's' set, '.' cat, '|' alt (n-ary, sorted, unique), '*' star
	set  func(rune) bool
	a, b *re
	alts []*re
	key  string
}

var (
	rNone   = &re{op: '0', key: "0"}
	rEps    = &re{op: 'e', key: "e"}
	setSeq  int
	consTab = map[string]*re{}
)

func mkSet(f func(rune) bool) *re {
	setSeq++
	return &re{op: 's', set: f, key: "s" + strconv.Itoa(setSeq)}
}

func cons(r *re) *re {
	if x, ok := consTab[r.key]; ok {
		return x
	}
	consTab[r.key] = r
	return r
}

func cat(a, b *re) *re {
	if a.op == '0' || b.op == '0' {
		return rNone
	}
	if a.op == 'e' {
		return b
	}
	if b.op == 'e' {
		return a
	}
	return cons(&re{op: '.', a: a, b: b, key: "(" + a.key + "." + b.key + ")"})
}

func alt(a, b *re) *re {
	m := map[string]*re{}
	var add func(x *re)
	add = func(x *re) {
		switch x.op {
		case '0':
		case '|':
			for _, y := range x.alts {
				add(y)
			}
		default:
			m[x.key] = x
		}
	}
	add(a)
	add(b)
	if len(m) == 0 {
		return rNone
	}
	keys := make([]string, 0, len(m))
	for k := range m {
		keys = append(keys, k)
	}
	sort.Strings(keys)
	if len(keys) == 1 {
		return m[keys[0]]
	}
	r := &re{op: '|', key: "[" + strings.Join(keys, "|") + "]"}
	for _, k := range keys {
		r.alts = append(r.alts, m[k])
	}
	return cons(r)
}

func star(a *re) *re {
	if a.op == '0' || a.op == 'e' {
		return rEps
	}
	if a.op == '*' {
		return a
	}
	return cons(&re{op: '*', a: a, key: "(" + a.key + ")*"})
}
func nullable(r *re) bool {
	switch r.op {
	case 'e', '*':
		return true
	case '.':
		return nullable(r.a) && nullable(r.b)
	case '|':
		for _, x := range r.alts {
			if nullable(x) {
				return true
			}
		}
	}
	return false
}
func deriv(r *re, c rune) *re {
	switch r.op {
	case '0', 'e':
		return rNone
	case 's':
		if r.set(c) {
			return rEps
		}
		return rNone
	case '.':
		d := cat(deriv(r.a, c), r.b)
		if nullable(r.a) {
			return alt(d, deriv(r.b, c))
		}
		return d
	case '|':
		out := rNone
		for _, x := range r.alts {
			out = alt(out, deriv(x, c))
		}
		return out
	case '*':
		return cat(deriv(r.a, c), r)
	}
	panic("op")
}

func inRngs(rs []rng, c rune) bool {
	for _, r := range rs {
		if c >= r.lo && c <= r.hi {
			return true
		}
	}
	return false
}

func compile(e *expr) *re {
	switch e.kind {
	case "lit":
		r := rEps
		rs := []rune(e.lit)
		for i := len(rs) - 1; i >= 0; i-- {
			ch := rs[i]
			r = cat(mkSet(func(c rune) bool { return c == ch }), r)
		}
		return r
	case "class":
		set, neg, sub := e.set, e.neg, e.sub
		return mkSet(func(c rune) bool {
			in := inRngs(set, c)
			if neg {
				in = !in
			}
			return in && c >= 0 && c <= 0x10FFFF && !(sub != nil && inRngs(sub, c))
		})
	case "any":
		return mkSet(func(c rune) bool { return c >= 0 && c <= 0x10FFFF })
	case "seq":
		r := rEps
		for i := len(e.kids) - 1; i >= 0; i-- {
			r = cat(compile(e.kids[i]), r)
		}
		return r
	case "alt":
		r := rNone
		for i := len(e.kids) - 1; i >= 0; i-- {
			r = alt(compile(e.kids[i]), r)
		}
		return r
	case "opt":
		return alt(compile(e.kids[0]), rEps)
	case "star":
		return star(compile(e.kids[0]))
	case "plus":
		k := compile(e.kids[0])
		return cat(k, star(k))
	}
	panic(e.kind)
}

// classEmpty reports whether a class denotes the empty set (precondition of C02 excludes it).
func classEmpty(e *expr) bool {
	if e.kind == "class" {
		r := compile(e)
		cands := []rune{0, 0x10FFFF}
		for _, x := range append(append([]rng{}, e.set...), e.sub...) {
			cands = append(cands, x.lo, x.hi, x.lo-1, x.hi+1, x.lo+1, x.hi-1)
		}
		for _, c := range cands {
			if c >= 0 && c <= 0x10FFFF && r.set(c) {
				return false
			}
		}
		return true
	}
	for _, k := range e.kids {
		if classEmpty(k) {
			return true
		}
	}
	return false
}

// ---- token streams ---------------------------------------------------------

type tok struct {
	Kind string // rule name, "ERROR", "EOF"
	Lo   int
	Hi   int
}

type rule struct {
	name    string // token name or "" for fragment
	discard bool   // fragment with @discard (else accumulate)
	e       *expr
	r       *re
}

func decode(in []byte, i int) (rune, int) {
	if i >= len(in) {
		return -1, 0
	}
	r, n := utf8.DecodeRune(in[i:])
	return r, n // invalid byte => (RuneError, 1), same as bytes.Reader.ReadRune
}

// refLex: the property's definition.
func refLex(rules []rule, in []byte) []tok {
	var out []tok
	pos, start := 0, 0
	for {
		ds := make([]*re, len(rules))
		for i, r := range rules {
			ds[i] = r.r
		}
		p := pos
		for {
			c, n := decode(in, p)
			if c == -1 {
				break
			}
			alive := false
			nds := make([]*re, len(ds))
			for i, d := range ds {
				nds[i] = deriv(d, c)
				alive = alive || nds[i].op != '0'
			}
			if !alive {
				break
			}
			ds = nds
			p += n
		}
		win := -1
		if p > pos {
			for i, d := range ds {
				if nullable(d) {
					win = i
					break
				}
			}
		}
		if win == -1 {
			if p == pos && pos >= len(in) {
				// pending accumulated text at EOF is the C11 defect; report as EOF here like the runtime
				return append(out, tok{"EOF", start, start})
			}
			return append(out, tok{"ERROR", start, start})
		}
		pos = p
		switch r := rules[win]; {
		case r.name != "":
			out = append(out, tok{r.name, start, pos})
			start = pos
		case r.discard:
			start = pos
		default: // accumulate
		}
	}
}

// loxLex interprets lox's DFA the way PushRune + simplelexer do.
func loxLex(d *dfa.DFA, termName map[int]string, in []byte) []tok {
	var out []tok
	pos, start := 0, 0
	st := d.States[0]
	for steps := 0; steps < 100000; steps++ {
		c, n := decode(in, pos)
		var next *dfa.State
		if !(st.Accept && st.NonGreedy) && c != -1 {
			st.Transitions.ForEach(func(ev any, to *dfa.State) {
				r := ev.(rang3.Range)
				if c >= r.B && c <= r.E {
					next = to
				}
			})
		}
		if next != nil {
			st = next
			pos += n
			continue
		}
		acts, _ := st.Data.(*mode.Actions)
		done := false
		if acts != nil {
			for _, a := range acts.Actions {
				switch a.Type {
				case mode.ActionAccept:
					out = append(out, tok{termName[a.Terminal], start, pos})
					start = pos
					st = d.States[0]
					done = true
				case mode.ActionDiscard:
					start = pos
					st = d.States[0]
					done = true
				case mode.ActionAccum:
					st = d.States[0]
					done = true
				}
				if done {
					break
				}
			}
		}
		if done {
			continue
		}
		if st == d.States[0] && c == -1 {
			return append(out, tok{"EOF", start, start})
		}
		return append(out, tok{"ERROR", start, start})
	}
	return append(out, tok{"LOOP", start, start})
}

func sample(t *rapid.T, e *expr, l string, out *[]rune, budget *int) {
	*budget--
	switch e.kind {
	case "lit":
		*out = append(*out, []rune(e.lit)...)
	case "class", "any":
		r := compile(e)
		for try := 0; try < 8; try++ {
			c := pool[rapid.IntRange(0, len(pool)-1).Draw(t, fmt.Sprintf("%sc%d", l, try))]
			if r.set(c) {
				*out = append(*out, c)
				return
			}
		}
		*out = append(*out, 'z') // may or may not match; fine, inputs are classified by the oracle
	case "seq":
		for i, k := range e.kids {
			sample(t, k, fmt.Sprintf("%s.%d", l, i), out, budget)
		}
	case "alt":
		i := rapid.IntRange(0, len(e.kids)-1).Draw(t, l+"alt")
		sample(t, e.kids[i], fmt.Sprintf("%s|%d", l, i), out, budget)
	case "opt":
		if rapid.Bool().Draw(t, l+"opt") {
			sample(t, e.kids[0], l+"?", out, budget)
		}
	case "star", "plus":
		n := rapid.IntRange(0, 2).Draw(t, l+"rep")
		if e.kind == "plus" {
			n++
		}
		for i := 0; i < n && *budget > 0; i++ {
			sample(t, e.kids[0], fmt.Sprintf("%s*%d", l, i), out, budget)
		}
	}
}

func TestLexProbe(t *testing.T) {
	n := 2000
	if v := os.Getenv("N"); v != "" {
		n, _ = strconv.Atoi(v)
	}
	flag.Set("rapid.checks", strconv.Itoa(n))
	var specs, rejected, emptyClass, nullableRule, inputs, multi, errs, mism, conflicts int
	examples := 0
	rapid.Check(t, func(rt *rapid.T) {
		consTab = map[string]*re{}
		nr := rapid.IntRange(1, 5).Draw(rt, "nr")
		var rules []rule
		var b strings.Builder
		b.WriteString("@lexer\n")
		for i := 0; i < nr; i++ {
			e := genExpr(rt, 3, fmt.Sprintf("r%d", i))
			if classEmpty(e) {
				emptyClass++
				return
			}
			r := rule{e: e, r: compile(e)}
			if nullable(r.r) {
				nullableRule++
				return
			}
			switch rapid.IntRange(0, 5).Draw(rt, fmt.Sprintf("kind%d", i)) {
			case 0:
				r.discard = true
				fmt.Fprintf(&b, "@frag %s @discard\n", e.text(true))
			case 1:
				fmt.Fprintf(&b, "@frag %s\n", e.text(true))
			default:
				r.name = fmt.Sprintf("T%c", 'A'+rune(i))
				fmt.Fprintf(&b, "%s = %s\n", r.name, e.text(true))
			}
			rules = append(rules, r)
		}
		text := b.String()
		fset := gotoken.NewFileSet()
		var sb strings.Builder
		el := errlogger.New(fset, &sb)
		file := fset.AddFile("g.lox", -1, len(text))
		unit := parser.Parse(file, []byte(text), el)
		if el.HasError() {
			rejected++
			if examples < 5 {
				examples++
				t.Logf("front end rejected:\n%s\n%s", sb.String(), text)
			}
			return
		}
		ctx := ast.NewContext(fset, el)
		ok := func() (ok bool) {
			defer func() {
				if r := recover(); r != nil {
					ok = false
					sb.WriteString(fmt.Sprint("PANIC ", r))
				}
			}()
			return ctx.Analyze(&ast.Spec{Units: []*ast.Unit{unit}}, ast.AllPasses)
		}()
		if !ok {
			if strings.Contains(sb.String(), "Conflicting") {
				conflicts++
				return
			}
			rejected++
			if examples < 5 {
				examples++
				t.Logf("analysis rejected:\n%s\n%s", sb.String(), text)
			}
			return
		}
		specs++
		d := ctx.LexerDFAs[ast.DefaultModeName].DFA
		names := map[int]string{}
		for _, tm := range ctx.Grammar.Terminals {
			names[tm.Index] = tm.Name
		}
		for k := 0; k < 20; k++ {
			var rs []rune
			for j, m := 0, rapid.IntRange(1, 4).Draw(rt, fmt.Sprintf("in%d", k)); j < m; j++ {
				if rapid.IntRange(0, 4).Draw(rt, fmt.Sprintf("in%d_%dr", k, j)) == 0 {
					rs = append(rs, pool[rapid.IntRange(0, len(pool)-1).Draw(rt, fmt.Sprintf("in%d_%dc", k, j))])
					continue
				}
				budget := 12
				sample(rt, rules[rapid.IntRange(0, len(rules)-1).Draw(rt, fmt.Sprintf("in%d_%dw", k, j))].e, fmt.Sprintf("in%d_%d", k, j), &rs, &budget)
			}
			in := []byte(string(rs))
			if rapid.IntRange(0, 9).Draw(rt, fmt.Sprintf("bad%d", k)) == 0 {
				in = append(in, 0x80)
			}
			want := refLex(rules, in)
			got := loxLex(d, names, in)
			inputs++
			if len(want) > 2 {
				multi++
			}
			if want[len(want)-1].Kind == "ERROR" {
				errs++
			}
			if fmt.Sprint(want) != fmt.Sprint(got) {
				mism++
				if examples < 8 {
					examples++
					t.Logf("MISMATCH input %q\nwant %v\ngot  %v\n%s", in, want, got, text)
				}
			}
		}
	})
	t.Logf("specs=%d rejected=%d crossRuleConflicts=%d skippedEmptyClass=%d skippedNullable=%d inputs=%d multiToken=%d endingInError=%d mismatches=%d",
		specs, rejected, conflicts, emptyClass, nullableRule, inputs, multi, errs, mism)
	}
